package main

import (
	"bytes"
	"errors"
	"fmt"
	"hash/crc32"
	"io"
	"net"
	"os"
	"runtime"
	"sort"
	"strings"
	"sync"
	"sync/atomic"
	"time"

	"github.com/pion/stun/v3"
)

// C10 / C11 / C12 / C15: Client histories (cmd 1001) with a scripted connection, a virtual clock and
// a manual collector: no real time, no sockets.

func init() {
	props["C10"] = runC10
	props["C11"] = runC11
	props["C12"] = runC12
	props["C15"] = runC15
	cmds[1001] = execClientHistory
}

var errScriptedWrite = errors.New("scripted write failure")

// scriptedTimeout: the same scripted failure, dressed as a net.Error that reports a timeout (what a
// connection with a write deadline returns); the client must treat it like any other write error
type scriptedTimeout struct{}

func (scriptedTimeout) Error() string   { return "scripted write failure: i/o timeout" }
func (scriptedTimeout) Timeout() bool   { return true }
func (scriptedTimeout) Temporary() bool { return true }
func (scriptedTimeout) Is(t error) bool { return t == errScriptedWrite || t == os.ErrDeadlineExceeded }

var failCount atomic.Int32

type vclock struct {
	mu  sync.Mutex
	now time.Time
}

func (c *vclock) Now() time.Time  { c.mu.Lock(); defer c.mu.Unlock(); return c.now }
func (c *vclock) set(t time.Time) { c.mu.Lock(); c.now = t; c.mu.Unlock() }

type manualCollector struct {
	mu      sync.Mutex
	f       func(time.Time)
	closed  bool
	closes  int
	wg      sync.WaitGroup // ticks in flight: Close waits for them, as the library's ticker collector does
	closing atomic.Bool    // Close has been entered (the client's closed flag is already set by then)
}

func (m *manualCollector) Start(_ time.Duration, f func(time.Time)) error { m.f = f; return nil }
func (m *manualCollector) Close() error {
	m.closing.Store(true)
	m.wg.Wait()
	m.mu.Lock()
	m.closed = true
	m.closes++
	m.mu.Unlock()
	return nil
}

// gateAgent: the stock Agent behind the ClientAgent interface, with a gate in front of the client's
// handler: when armed, the next event is held (it is "in flight": the agent has already taken the
// transaction out of its table and released its lock) until the harness releases it.
type gateAgent struct {
	pairOn      atomic.Bool
	pairID      atomic.Int64
	pairArrived atomic.Int32
	*stun.Agent
	armed       atomic.Bool
	inflight    chan struct{}
	release     chan struct{}
	agentClosed atomic.Bool
	// when pauseStart is set the next Start is held before it reaches the agent
	pauseStart   atomic.Bool
	startPaused  chan struct{}
	startRelease chan struct{}
	afterStart   func(id [stun.TransactionIDSize]byte) // called after the agent accepted a Start (set before the client is used)
}

func (g *gateAgent) Start(id [stun.TransactionIDSize]byte, deadline time.Time) error {
	if g.pauseStart.CompareAndSwap(true, false) {
		g.startPaused <- struct{}{}
		select {
		case <-g.startRelease:
		case <-time.After(8 * time.Second):
		}
	}
	err := g.Agent.Start(id, deadline)
	if f := g.afterStart; f != nil && err == nil {
		f(id)
	}
	return err
}

func (g *gateAgent) SetHandler(h stun.Handler) error {
	return g.Agent.SetHandler(func(e stun.Event) {
		if g.pairOn.Load() && agentIDOf(e.TransactionID) == int(g.pairID.Load()) {
			// line two events for one transaction up at the entry of the client's handler (bounded)
			g.pairArrived.Add(1)
			for i := 0; i < 20000 && g.pairArrived.Load() < 2; i++ {
			}
		}
		if g.armed.CompareAndSwap(true, false) {
			g.inflight <- struct{}{}
			select {
			case <-g.release:
			case <-time.After(3 * time.Second):
			}
		}
		h(e)
	})
}

func (g *gateAgent) Close() error {
	err := g.Agent.Close()
	g.agentClosed.Store(true)
	return err
}

func (g *gateAgent) arm() {
	g.release = make(chan struct{})
	select {
	case <-g.inflight:
	default:
	}
	g.armed.Store(true)
}

type cobs struct {
	key  int // sort key: instance
	seq  int
	data []int
}

type scriptConn struct {
	mu       sync.Mutex
	rd       chan []byte
	idle     chan struct{}
	closedCh chan struct{}
	closes   int
	failInst map[int]bool
	clock    *vclock
	h        *clientHarness
	unblock  chan struct{} // WithNoConnClose: make Read return
	inRead   atomic.Int32  // number of goroutines inside Read
	closeErr error         // what Close reports (after closing)
}

func (c *scriptConn) Read(p []byte) (int, error) {
	c.inRead.Add(1)
	defer c.inRead.Add(-1)
	select {
	case c.idle <- struct{}{}:
	default:
	}
	select {
	case d := <-c.rd:
		return copy(p, d), nil
	case <-c.closedCh:
		return 0, io.ErrClosedPipe
	case <-c.unblock:
		return 0, io.EOF
	}
}

func (c *scriptConn) Write(p []byte) (int, error) {
	b := append([]byte(nil), p...)
	inst := 65535
	c.h.mu.Lock()
	indicating := c.h.indicating
	c.h.mu.Unlock()
	if len(b) >= 20 && !indicating { // the write of an indication belongs to no transaction, whatever ID it carries
		if i, ok := c.h.instOfTID(b[8:20]); ok {
			inst = i
		} else if i, ok := c.h.instOfRaw(b); ok {
			inst = i // a request whose header carries another ID than its TransactionID field
		}
	}
	c.mu.Lock()
	fail := c.failInst[inst]
	if fail {
		delete(c.failInst, inst)
	}
	c.mu.Unlock()
	c.h.noteWriteAttempt(inst)
	if fail {
		if failCount.Add(1)%2 == 0 {
			return 0, scriptedTimeout{}
		}
		return 0, errScriptedWrite
	}
	now := int(c.clock.Now().Sub(agentBase))
	c.h.record(inst, []int{1, inst, now, len(b), int(crc32.ChecksumIEEE(b))})
	c.h.checkWrite(inst, b, now)
	if c.h.closedOK {
		c.h.o.failFor("C15", "write-after-close", c.h.line)
	}
	return len(b), nil
}

func (c *scriptConn) Close() error {
	c.mu.Lock()
	c.closes++
	n := c.closes
	c.mu.Unlock()
	if n == 1 {
		close(c.closedCh)
	}
	c.h.record(80000, []int{4})
	return c.closeErr
}

type clientHarness struct {
	inAppStop bool // the application is stopping a transaction through the shared agent (op 12)
	indicating bool // Indicate is running (op 2): its write belongs to no transaction
	o        *out
	line     string
	mu       sync.Mutex
	obs      []cobs
	seq      int
	tidInst  map[[12]byte]int
	attempts map[int]int
	invoked  map[int]int // inst -> number of handler invocations
	started  map[int]bool
	startErr map[int]bool
	closedOK bool // Close has returned nil
	doWait   map[int]chan error
	finished map[int]bool // the handler of this instance has returned
	// C11 oracle: what was given to Start, when each transmission happened, the RTO captured at Start
	rawOf     map[int][]byte
	rtoOf     map[int]int
	lastWrite map[int]int
	nWrites   map[int]int
	maxA      int
	curRTO    int
	// C12 oracle: the transaction ID each instance was started with
	tidOf map[int][12]byte
}

func (h *clientHarness) instOfTID(t []byte) (int, bool) {
	var k [12]byte
	copy(k[:], t)
	h.mu.Lock()
	defer h.mu.Unlock()
	i, ok := h.tidInst[k]
	return i, ok
}

// instOfRaw: the latest instance whose request bytes are exactly b
func (h *clientHarness) instOfRaw(b []byte) (int, bool) {
	h.mu.Lock()
	defer h.mu.Unlock()
	best, ok := -1, false
	for i, raw := range h.rawOf {
		if i > best && bytes.Equal(raw, b) {
			best, ok = i, true
		}
	}
	return best, ok
}

func (h *clientHarness) noteWriteAttempt(inst int) {
	h.mu.Lock()
	h.attempts[inst]++
	h.mu.Unlock()
}

func (h *clientHarness) record(key int, data []int) {
	h.mu.Lock()
	h.seq++
	h.obs = append(h.obs, cobs{key: key, seq: h.seq, data: data})
	h.mu.Unlock()
}

func (h *clientHarness) flush() []int {
	h.mu.Lock()
	defer h.mu.Unlock()
	sort.SliceStable(h.obs, func(i, j int) bool { return h.obs[i].key < h.obs[j].key })
	out := []int{len(h.obs)}
	for _, ob := range h.obs {
		out = append(out, ob.data...)
	}
	h.obs = nil
	return out
}

func clientTID(id int) [12]byte { return agentTID(id) }

// checkWrite is oracle (B) for C11, evaluated on the implementation's own writes
func (h *clientHarness) checkWrite(inst int, b []byte, now int) {
	h.mu.Lock()
	defer h.mu.Unlock()
	raw, ok := h.rawOf[inst]
	if !ok {
		return
	}
	k := h.nWrites[inst] // this is transmission number k (0 = the one made by Start)
	if string(raw) != string(b) {
		h.o.failFor("C11", "retransmission-differs-from-original", fmt.Sprintf("%s inst=%d transmission=%d len=%d want=%d", h.line, inst, k, len(b), len(raw)))
	}
	if k > h.maxA {
		h.o.failFor("C11", "more-than-n+1-transmissions", h.line)
	}
	// a retransmission provoked by the APPLICATION stopping the transaction through a shared agent is outside
	// C11's quantifier (clock advances, responses, SetRTO, buffer reuse): the client treats the "stopped" event
	// like a timeout and retransmits at once; the model (CAppStop) predicts that write, so it is still compared
	if k >= 1 && !h.inAppStop && !(now > h.lastWrite[inst]+k*h.rtoOf[inst]) {
		h.o.failFor("C11", "retransmitted-before-deadline", fmt.Sprintf("%s inst=%d k=%d now=%d last=%d rto=%d", h.line, inst, k, now, h.lastWrite[inst], h.rtoOf[inst]))
	}
	if h.invoked[inst] > 0 {
		h.o.failFor("C11", "write-after-transaction-ended", h.line)
	}
	h.nWrites[inst] = k + 1
	h.lastWrite[inst] = now
}

func resCode(e stun.Event) []int {
	var se stun.StopErr
	switch {
	case e.Error == nil && e.Message != nil:
		return []int{1, len(e.Message.Raw), int(crc32.ChecksumIEEE(e.Message.Raw))}
	case errors.As(e.Error, &se):
		return []int{9, 0, 0}
	case errors.Is(e.Error, stun.ErrTransactionTimeOut):
		return []int{2, 0, 0}
	case errors.Is(e.Error, stun.ErrAgentClosed):
		return []int{3, 0, 0}
	case errors.Is(e.Error, stun.ErrTransactionStopped):
		return []int{4, 0, 0}
	case errors.Is(e.Error, stun.ErrClientClosed):
		return []int{5, 0, 0}
	case errors.Is(e.Error, stun.ErrTransactionExists):
		return []int{6, 0, 0}
	case errors.Is(e.Error, errScriptedWrite):
		return []int{8, 0, 0}
	}
	return []int{7, 0, 0}
}

func retcCode(err error) int {
	var se stun.StopErr
	switch {
	case err == nil:
		return 0
	case errors.As(err, &se):
		return 5
	case errors.Is(err, stun.ErrClientClosed):
		return 1
	case errors.Is(err, stun.ErrTransactionExists):
		return 2
	case errors.Is(err, errScriptedWrite):
		return 4
	}
	return 3
}

// checkEventMessage: the Message a handler sees is the decode of exactly the received datagram
func (h *clientHarness) checkEventMessage(e stun.Event, lastDatagram []byte) {
	if e.Message == nil {
		return
	}
	d := lastDatagram
	if len(d) > 1024 {
		d = d[:1024]
	}
	ref := new(stun.Message)
	if err := stun.Decode(d, ref); err != nil {
		h.o.failFor("C12", "handler-got-undecodable-datagram", h.line)
		return
	}
	if fmt.Sprint(serDecoded(ref)) != fmt.Sprint(serDecoded(e.Message)) || e.TransactionID != ref.TransactionID {
		h.o.failFor("C12", "handler-message-not-the-datagram", h.line)
	}
}

func waitIdle(c *scriptConn) bool {
	select {
	case <-c.idle:
		return true
	case <-time.After(5 * time.Second):
		return false
	}
}

// execClientHistory: fields [rto, maxAttempts, closeConn, fallback] op...
// clientStuck: histories abandoned because Close never returned; after 5 the remaining histories are not
// run (each costs the watchdog delay)
var clientStuck atomic.Int32

func execClientHistory(o *out, f [][]int) []int {
	if clientStuck.Load() >= 5 {
		return []int{778}
	}
	parts := make([]string, len(f))
	for i, x := range f {
		parts[i] = fNums(x...)
	}
	h := &clientHarness{o: o, line: "1001 " + strings.Join(parts, " "), tidInst: map[[12]byte]int{},
		attempts: map[int]int{}, invoked: map[int]int{}, started: map[int]bool{}, startErr: map[int]bool{}, doWait: map[int]chan error{}, finished: map[int]bool{},
		rawOf: map[int][]byte{}, rtoOf: map[int]int{}, lastWrite: map[int]int{}, nWrites: map[int]int{}, tidOf: map[int][12]byte{}}
	cfg := f[0]
	h.maxA, h.curRTO = cfg[1], cfg[0]
	clock := &vclock{now: agentBase}
	conn := &scriptConn{rd: make(chan []byte), idle: make(chan struct{}, 1), closedCh: make(chan struct{}),
		failInst: map[int]bool{}, clock: clock, h: h, unblock: make(chan struct{})}
	coll := &manualCollector{}
	var lastDatagram []byte
	gate := &gateAgent{Agent: stun.NewAgent(nil), inflight: make(chan struct{}, 1), release: make(chan struct{}), startPaused: make(chan struct{}, 1)}
	opts := []stun.ClientOption{stun.WithClock(clock), stun.WithCollector(coll), stun.WithRTO(time.Duration(cfg[0])), stun.WithAgent(gate)}
	if cfg[1] == 0 {
		opts = append(opts, stun.WithNoRetransmit)
	}
	if cfg[2] == 0 {
		opts = append(opts, stun.WithNoConnClose())
	}
	if cfg[3] != 0 {
		fb := cfg[3]
		opts = append(opts, stun.WithHandler(func(e stun.Event) {
			h.checkEventMessage(e, lastDatagram)
			if h.closedOK {
				o.failFor("C15", "handler-after-close", h.line)
			}
			if errors.Is(e.Error, stun.ErrTransactionStopped) {
				o.failFor("C12", "fallback-got-stopped-event", h.line)
			}
			h.record(70000, append([]int{3, fb, agentIDOf(e.TransactionID)}, resCode(e)...))
		}))
	}
	c, err := stun.NewClient(conn, opts...)
	if err != nil {
		return []int{999999}
	}
	// maxAttempts other than the default 7 / 0 is set through the exported option only for 0; for other
	// values histories use the default (7) — cfg[1] is 0 or 7
	if !waitIdle(conn) {
		o.fail("reader-never-started", h.line)
	}
	nextInst := 0
	closed := false
	var obs []int
	aborted := false
	var execOp func(op []int)
	execOp = func(op []int) {
		switch op[0] {
		case 1: // Start / Do
			id, hid := op[1], op[2]
			raw := bytesOf(op[3:])
			inst := -1
			if !closed {
				inst = nextInst
				nextInst++
			}
			tid := clientTID(id)
			m := &stun.Message{TransactionID: tid, Raw: append([]byte(nil), raw...)}
			if len(raw) >= 2 {
				m.Type.ReadValue(uint16(raw[0])<<8 | uint16(raw[1])) // the struct as Build would leave it: any class, any method
			}
			h.mu.Lock()
			prev, hadPrev := h.tidInst[tid]
			if inst >= 0 {
				h.tidInst[tid] = inst
				h.rawOf[inst] = append([]byte(nil), raw...)
				h.rtoOf[inst] = h.curRTO
				h.tidOf[inst] = tid
			}
			h.mu.Unlock()
			myInst := inst
			handler := func(e stun.Event) {
				h.checkEventMessage(e, lastDatagram)
				h.mu.Lock()
				h.invoked[myInst]++
				n := h.invoked[myInst]
				bad := h.startErr[myInst]
				lastW, nW, rto := h.lastWrite[myInst], h.nWrites[myInst], h.rtoOf[myInst]
				h.mu.Unlock()
				if e.TransactionID != tid || (e.Message != nil && e.Message.TransactionID != tid) {
					o.failFor("C12", "event-delivered-to-another-transaction", h.line)
				}
				if errors.Is(e.Error, stun.ErrTransactionTimeOut) {
					nowT := int(clock.Now().Sub(agentBase))
					if nW != h.maxA+1 || !(nowT > lastW+(h.maxA+1)*rto) {
						o.failFor("C11", "timeout-before-last-deadline", fmt.Sprintf("%s inst=%d writes=%d now=%d last=%d", h.line, myInst, nW, nowT, lastW))
					}
				}
				if n > 1 {
					o.failFor("C10", "handler-invoked-twice", h.line)
				}
				if bad {
					o.failFor("C10", "handler-invoked-after-start-error", h.line)
				}
				if h.closedOK {
					o.failFor("C15", "handler-after-close", h.line)
				}
				h.record(myInst, append([]int{2, myInst, hid}, resCode(e)...))
				if hid >= 100 {
					time.Sleep(300 * time.Microsecond) // Do must wait for the end of the handler, not its start
				}
				h.mu.Lock()
				h.finished[myInst] = true
				h.mu.Unlock()
			}
			var serr error
			if hid >= 100 { // Do: runs in its own goroutine, returns when the handler has run
				done := make(chan error, 1)
				go func() {
					derr := c.Do(m, handler)
					h.mu.Lock()
					fin := h.finished[myInst]
					h.mu.Unlock()
					if derr == nil && myInst >= 0 && !fin {
						o.failFor("C10", "do-returned-before-handler-finished", h.line)
					}
					done <- derr
				}()
				// wait until Do has either returned or reached its blocking wait (the write was attempted)
				deadline := time.Now().Add(5 * time.Second)
				returned := false
				for time.Now().Before(deadline) {
					select {
					case serr = <-done:
						returned = true
					default:
					}
					h.mu.Lock()
					att := h.attempts[myInst]
					h.mu.Unlock()
					if returned || (myInst >= 0 && att > 0) {
						break
					}
					runtime.Gosched()
				}
				if !returned {
					// the write was attempted: if it failed Do returns at once, otherwise it blocks
					select {
					case serr = <-done:
						returned = true
					case <-time.After(30 * time.Millisecond):
					}
				}
				if !returned {
					h.doWait[myInst] = done
					serr = nil
				}
			} else {
				serr = c.Start(m, handler)
			}
			// the caller may reuse and overwrite the message after Start (C11)
			for i := range m.Raw {
				m.Raw[i] ^= 0xFF
			}
			if serr != nil && inst >= 0 {
				h.mu.Lock()
				h.startErr[inst] = true
				delete(h.rawOf, inst)
				if hadPrev {
					h.tidInst[tid] = prev
				} else {
					delete(h.tidInst, tid)
				}
				h.mu.Unlock()
			} else if inst >= 0 {
				h.started[inst] = true
			}
			h.record(90000, []int{5, retcCode(serr)})
		case 2:
			m := &stun.Message{TransactionID: clientTID(0), Raw: append([]byte(nil), bytesOf(op[1:])...)}
			if len(m.Raw) >= 20 {
				copy(m.TransactionID[:], m.Raw[8:20]) // an indication may carry any ID, that of a transaction in flight included
			}
			h.mu.Lock()
			h.indicating = true
			h.mu.Unlock()
			ierr := c.Indicate(m)
			h.mu.Lock()
			h.indicating = false
			h.mu.Unlock()
			h.record(90000, []int{5, retcCode(ierr)})
		case 3:
			if !closed {
				lastDatagram = bytesOf(op[1:])
				conn.rd <- lastDatagram
				if !waitIdle(conn) {
					o.fail("reader-stuck", h.line)
				}
			}
		case 4:
			now := agentBase.Add(time.Duration(op[1]))
			clock.set(now)
			if !coll.closed {
				coll.wg.Add(1)
				coll.f(now)
				coll.wg.Done()
			}
		case 5:
			clock.set(agentBase.Add(time.Duration(op[1])))
		case 6:
			c.SetRTO(time.Duration(op[1]))
			h.curRTO = op[1]
		case 11: // another user of the agent registers a transaction
			_ = gate.Agent.Start(clientTID(op[1]), agentBase.Add(4000000000000000000))
		case 12: // the application stops a transaction through the agent it shares with the client
			h.mu.Lock()
			h.inAppStop = true
			h.mu.Unlock()
			_ = gate.Agent.Stop(clientTID(op[1]))
			h.mu.Lock()
			h.inAppStop = false
			h.mu.Unlock()
		case 7:
			conn.mu.Lock()
			conn.failInst = map[int]bool{}
			for _, i := range op[1:] {
				conn.failInst[i] = true
			}
			conn.mu.Unlock()
		case 13:
			// Start held between the client's own checks and the agent's Start while Close runs to completion; when
			// Start fails before it gets that far the two calls simply follow each other
			startOp := append([]int{1}, op[1:]...)
			gate.startRelease = make(chan struct{})
			gate.pauseStart.Store(true)
			startDone := make(chan struct{})
			go func() { execOp(startOp); close(startDone) }()
			paused := false
			select {
			case <-gate.startPaused:
				paused = true
			case <-startDone:
				gate.pauseStart.Store(false)
			case <-time.After(5 * time.Second):
				o.fail("start-stuck", h.line)
				gate.pauseStart.Store(false)
			}
			execOp([]int{8})
			if paused {
				close(gate.startRelease)
				select {
				case <-startDone:
				case <-time.After(5 * time.Second):
					o.failFor("C10", "start-does-not-return", h.line)
					aborted = true
				}
			}
		case 8, 9, 10:
			// 9 / 10: Close while the events of a tick / of a datagram are in flight (held at the gate)
			held := false
			var releaseWhen func() bool
			if op[0] == 9 {
				now := agentBase.Add(time.Duration(op[1]))
				clock.set(now)
				if !closed {
					gate.arm()
					tickDone := make(chan struct{})
					coll.wg.Add(1)
					go func() { coll.f(now); coll.wg.Done(); close(tickDone) }()
					select {
					case <-gate.inflight:
						held = true
					case <-tickDone:
						gate.armed.Store(false)
					case <-time.After(5 * time.Second):
						o.fail("tick-stuck", h.line)
					}
					// released once Close has set the flag and waits for the collector
					releaseWhen = func() bool { return coll.closing.Load() }
				}
			}
			if op[0] == 10 && !closed {
				gate.arm()
				lastDatagram = bytesOf(op[1:])
				conn.rd <- lastDatagram
				select {
				case <-gate.inflight:
					held = true
				case <-conn.idle:
					gate.armed.Store(false)
					select {
					case conn.idle <- struct{}{}:
					default:
					}
				case <-time.After(5 * time.Second):
					o.fail("reader-stuck", h.line)
				}
				// released once Close is past agent.Close and the connection's Close
				releaseWhen = func() bool {
					conn.mu.Lock()
					nc := conn.closes
					conn.mu.Unlock()
					return gate.agentClosed.Load() && (cfg[2] == 0 || nc >= 1)
				}
			}
			releaseGate := func() {
				if !held {
					return
				}
				for k := 0; k < 3000 && !releaseWhen(); k++ {
					time.Sleep(time.Millisecond)
				}
				close(gate.release)
				if op[0] == 10 { // wait until the in-flight callback has run and the reader is back in (or out of) Read
					time.Sleep(500 * time.Microsecond)
				}
			}
			var cerr error
			if cfg[2] == 0 && !closed {
				done := make(chan error, 1)
				go func() { done <- c.Close() }()
				releaseGate()
				// under WithNoConnClose the connection's Read eventually returns (the property's precondition);
				// until it does, Close must not return: the reader goroutine is still inside Read
				returned := false
				select {
				case cerr = <-done:
					returned = true
					if conn.inRead.Load() > 0 {
						o.failFor("C15", "close-returned-while-reader-in-read", h.line)
					}
				case <-time.After(2 * time.Millisecond):
				}
				close(conn.unblock)
				if !returned {
					select {
					case cerr = <-done:
					case <-time.After(5 * time.Second):
						o.failFor("C15", "close-did-not-return", h.line)
						clientStuck.Add(1)
						aborted = true
						return
					}
				}
			} else {
				done := make(chan error, 1)
				go func() { done <- c.Close() }()
				releaseGate()
				select {
				case cerr = <-done:
				case <-time.After(5 * time.Second):
					o.failFor("C15", "close-did-not-return", h.line)
					clientStuck.Add(1)
					aborted = true
					return
				}
			}
			if cerr == nil {
				if conn.inRead.Load() > 0 {
					o.failFor("C15", "close-returned-while-reader-in-read", h.line)
				}
				closed = true
				h.record(90000, []int{5, 0})
				h.closedOK = true
				// C10 oracle: once Close has returned, every started transaction has completed exactly once
				h.mu.Lock()
				for inst := range h.started {
					if h.invoked[inst] != 1 {
						o.failFor("C10", "transaction-not-completed-by-close", fmt.Sprintf("%s inst=%d invoked=%d", h.line, inst, h.invoked[inst]))
					}
				}
				h.mu.Unlock()
				if cfg[2] != 0 && conn.closes != 1 {
					o.failFor("C15", "conn-close-count", h.line)
				}
				if cfg[2] == 0 && conn.closes != 0 {
					o.failFor("C15", "conn-closed-despite-noconnclose", h.line)
				}
			} else {
				h.record(90000, []int{5, retcCode(cerr)})
				if closed && !errors.Is(cerr, stun.ErrClientClosed) {
					o.failFor("C15", "second-close-not-ErrClientClosed", h.line)
				}
			}
		}
	}
	for _, op := range f[1:] {
		execOp(op)
		if aborted {
			return append(obs, 777) // the client is wedged: nothing after this can be observed
		}
		// Do returns once its handler has run
		for inst, ch := range h.doWait {
			h.mu.Lock()
			inv := h.invoked[inst]
			h.mu.Unlock()
			if inv > 0 {
				select {
				case <-ch:
				case <-time.After(5 * time.Second):
					o.failFor("C10", "do-did-not-return-after-handler", h.line)
				}
				delete(h.doWait, inst)
			}
		}
		obs = append(obs, h.flush()...)
	}
	if !closed {
		// clean up: close, unblock the reader
		go func() { _ = c.Close() }()
		time.Sleep(time.Millisecond)
		select {
		case <-conn.unblock:
		default:
			close(conn.unblock)
		}
	}
	return obs
}

// ---------------------------------------------------------------- generators

type clientGen struct {
	r       *rng
	now     int
	rto     int
	maxA    int
	nextID  int
	live    []int // ids believed in flight
	insts   int
	closed  bool
	maxSize int
}

func stunMsg(r *rng, id int, size int) []byte {
	body := size - 20
	if body < 0 {
		body = 0
	}
	body = body / 4 * 4
	t := clientTID(id)
	typ := 0x0001
	if r.chance(1, 3) {
		typ = r.pick([]int{0x0011, 0x0011, 0x0101, 0x0111, 0x0003, r.intn(0x4000)}) // what is sent need not be a request
	}
	b := header(typ, body, t[:])
	for body > 0 {
		l := body - 4
		if l > 60000 {
			l = 60000
		}
		l = l / 4 * 4
		b = append(b, r.tlv(0x8030, r.bytes(l), l)...)
		body -= 4 + l
	}
	return b
}

func response(r *rng, id int, extra int) []byte {
	t := clientTID(id)
	var body []byte
	if extra > 0 {
		body = r.tlv(0x8022, r.bytes(extra), extra)
	}
	// the class of a delivered message must not matter to the transaction machinery
	typ := r.pick([]int{0x0101, 0x0101, 0x0101, 0x0101, 0x0111, 0x0011, 0x0001, 0x0113})
	if r.chance(1, 4) {
		typ = r.intn(0x4000) // nor its method: every 14-bit type, first byte up to 0x3f
	}
	if r.chance(1, 5) {
		// an error response with an ERROR-CODE of any class (3xx try-alternate ... 5xx server error, 6xx global):
		// delivered like any other message, whatever the RFC lets a client do about it
		code := r.pick([]int{300, 400, 401, 420, 438, 500, 500, 503, 508, 599, 600})
		ec := append([]byte{0, 0, byte(code / 100), byte(code % 100)}, []byte("reason")...)
		body = append(body, r.tlv(0x0009, ec, len(ec))...)
		typ = r.pick([]int{0x0111, 0x0111, 0x0113, 0x0101})
	}
	return append(header(typ, len(body), t[:]), body...)
}

// damagedResponse: an intact header carrying the transaction's ID, and an attribute list that does not parse
// (a length field running past the body, a cut attribute header, a body length that is not there)
func damagedResponse(r *rng, id int) []byte {
	t := clientTID(id)
	switch r.intn(3) {
	case 0:
		body := []byte{0x80, 0x22, 0x00, 0x40, 1, 2, 3, 4} // claims 64 value bytes, has 4
		return append(header(0x0101, len(body), t[:]), body...)
	case 1:
		body := append(r.tlv(0x8022, r.bytes(4), 4), 0x80, 0x22) // then half an attribute header
		return append(header(0x0101, len(body), t[:]), body...)
	default:
		return append(header(0x0101, 24, t[:]), r.tlv(0x8022, r.bytes(4), 4)...) // declares more body than was sent
	}
}

func (g *clientGen) start(fs *[]string, do bool) {
	r := g.r
	id := 0
	if len(g.live) > 0 && r.chance(1, 8) {
		id = g.live[r.intn(len(g.live))] // duplicate id: ErrTransactionExists
	} else {
		// ids differing in one bit from each other
		id = r.pick([]int{1, 2, 3, 5, 9, 17, 257, 258, 4097, 4096 + 1 + r.intn(200)})
	}
	size := r.pick([]int{20, 24, 28, 60, 200})
	if g.maxSize > 200 && r.chance(1, 5) {
		size = r.pick([]int{1024, 1500, 2044, 2048, 2052, 3024, g.maxSize})
		if lens := litIntsIn(64, 60000, 20); len(lens) > 0 && r.chance(1, 2) {
			size = lens[r.intn(len(lens))] + r.pick([]int{-4, 0, 4}) // a number of the library's source as the request size
		}
	}
	hid := 1 + r.intn(5)
	if do {
		hid = 100 + r.intn(5)
	}
	raw := stunMsg(r, id, size)
	if r.chance(1, 8) && len(raw) >= 20 {
		copy(raw[8:20], r.bytes(12)) // the header carries another ID than the TransactionID field: sent as it is, every time
	}
	*fs = append(*fs, withBytes([]int{1, id, hid}, raw))
	if !g.closed {
		g.live = append(g.live, id)
		g.insts++
	}
}

func (g *clientGen) history(n int) []string {
	r := g.r
	fs := []string{fNums(g.rto, g.maxA, 1, 0)}
	for i := 0; i < n; i++ {
		switch r.intn(16) {
		case 0, 1, 2, 3:
			g.start(&fs, false)
		case 4:
			g.start(&fs, true)
		case 5, 6:
			if len(g.live) > 0 {
				id := g.live[r.intn(len(g.live))]
				if r.chance(1, 4) { // the clock is already past the deadline, no collector tick yet: the response still counts
					g.now += g.rto*r.rangeIn(1, 3) + 1
					fs = append(fs, fNums(5, g.now))
				}
				if r.chance(1, 5) { // first a datagram for this transaction that does not decode: dropped, no effect
					fs = append(fs, withBytes([]int{3}, damagedResponse(r, id)))
				}
				fs = append(fs, withBytes([]int{3}, response(r, id, r.pick([]int{0, 0, 4, 17}))))
				if r.chance(1, 4) { // duplicate / late response
					fs = append(fs, withBytes([]int{3}, response(r, id, 0)))
				}
			} else {
				fs = append(fs, withBytes([]int{3}, response(r, 4242, 0))) // unknown id
			}
		case 7:
			switch r.intn(3) {
			case 0:
				fs = append(fs, withBytes([]int{3}, r.bytes(r.intn(40)))) // garbage
			case 1:
				fs = append(fs, withBytes([]int{3}, response(r, 1+r.intn(6000), 0)))
			default:
				fs = append(fs, withBytes([]int{3}, r.mutate(response(r, 1, 4))))
			}
		case 8, 9, 10, 11:
			// advance the clock to just before / at / just after a multiple of the RTO
			k := r.rangeIn(1, 9)
			g.now += k*g.rto/2 + r.pick([]int{-1, 0, 1})
			if g.now < 0 {
				g.now = 0
			}
			fs = append(fs, fNums(4, g.now))
		case 12:
			if g.insts > 0 {
				fs = append(fs, fNums(7, r.intn(g.insts+1)))
			}
		case 13:
			g.rto = r.pick([]int{10, 100, 1000, 0})
			fs = append(fs, fNums(6, g.rto))
		case 14:
			if len(g.live) > 0 && r.chance(1, 2) {
				// an indication that carries the ID of a transaction in flight, and whose write fails half of the time:
				// nothing happens to that transaction
				if r.chance(1, 2) {
					fs = append(fs, fNums(7, 65535))
				}
				fs = append(fs, withBytes([]int{2}, stunMsg(r, g.live[r.intn(len(g.live))], 20)))
			} else {
				fs = append(fs, withBytes([]int{2}, stunMsg(r, 0, 20)))
			}
		default:
			switch r.intn(6) {
			case 0:
				fs = append(fs, fNums(8))
				g.closed = true
			case 1:
				// Close racing the events of a collector tick (advance to around a deadline)
				g.now += r.rangeIn(1, 9)*g.rto/2 + r.pick([]int{-1, 0, 1, 1})
				if g.now < 0 {
					g.now = 0
				}
				fs = append(fs, fNums(9, g.now))
				g.closed = true
			case 2:
				// Close racing a datagram already past agent.Process
				id := 4242
				if len(g.live) > 0 && r.chance(3, 4) {
					id = g.live[r.intn(len(g.live))]
				}
				d := response(r, id, r.pick([]int{0, 4}))
				if r.chance(1, 8) {
					d = r.bytes(r.intn(30))
				}
				fs = append(fs, withBytes([]int{10}, d))
				g.closed = true
			case 3:
				// another user of the agent holds an ID the client is going to use
				fs = append(fs, fNums(11, r.pick([]int{1, 2, 3, 5, 9, 17, 257})))
			case 5:
				// a Start held between the client's checks and the agent while Close runs
				wasClosed := g.closed
				g.start(&fs, false)
				fs[len(fs)-1] = "13," + strings.TrimPrefix(fs[len(fs)-1], "1,")
				if !wasClosed && len(g.live) > 0 {
					g.live = g.live[:len(g.live)-1] // never registered with the agent
				}
				g.closed = true
			case 4:
				// the application stops a transaction (mostly one in flight) through the shared agent
				id := r.pick([]int{1, 2, 3, 5, 9, 17, 257})
				if len(g.live) > 0 && r.chance(4, 5) {
					id = g.live[r.intn(len(g.live))]
				}
				fs = append(fs, fNums(12, id))
			}
		}
	}
	return fs
}

func runClientRandom(o *out, r *rng, n int, maxSize int, endClose bool) {
	for i := 0; i < n; i++ {
		g := &clientGen{r: r, rto: r.pick([]int{10, 100, 1000, 1000, 2500000000}), maxA: r.pick([]int{7, 7, 0}), maxSize: maxSize}
		fs := g.history(r.rangeIn(3, 40))
		cfg := parseField(fs[0])
		cfg[2] = r.pick([]int{1, 1, 0})
		cfg[3] = r.pick([]int{0, 9})
		fs[0] = fNums(cfg...)
		if endClose {
			fs = append(fs, fNums(8), fNums(8))
		}
		o.run(1001, fs, true)
		o.countN("ops", len(fs)-1)
	}
}

// exhaustive: every history up to the depth bound over a small alphabet for 1..2 IDs
func runClientExhaustive(o *out, depth int) int {
	r := newRng(7)
	m1, m2 := stunMsg(r, 1, 24), stunMsg(r, 2, 20)
	alphabet := []string{
		withBytes([]int{1, 1, 1}, m1),
		withBytes([]int{1, 2, 2}, m2),
		withBytes([]int{3}, response(r, 1, 0)),
		withBytes([]int{3}, response(r, 2, 4)),
		withBytes([]int{3}, []byte{1, 2, 3}),
		"T", // tick: advance by one RTO + 1
		fNums(7, 0),
		fNums(7, 1),
		fNums(8),
	}
	cnt := 0
	for _, cfgs := range [][]int{{100, 7, 1, 0}, {100, 0, 1, 9}} {
		var rec func(prefix []string, now int, d int)
		rec = func(prefix []string, now int, d int) {
			if len(prefix) > 0 {
				o.run(1001, append([]string{fNums(cfgs...)}, prefix...), true)
				cnt++
			}
			if d == 0 {
				return
			}
			for _, op := range alphabet {
				p := append([]string{}, prefix...)
				n2 := now
				if op == "T" {
					n2 = now + 101
					p = append(p, fNums(4, n2))
				} else {
					p = append(p, op)
				}
				rec(p, n2, d-1)
			}
		}
		rec(nil, 0, depth)
		// the same with the application stopping transaction 1 or 2 through the shared agent, one level less
		alphabet = append(alphabet, fNums(12, 1), fNums(12, 2), withBytes([]int{13, 1, 3}, m1), withBytes([]int{13, 2, 4}, m2))
		rec(nil, 0, depth-1)
		alphabet = alphabet[:len(alphabet)-4]
	}
	return cnt
}

func runC10(o *out, thorough bool, r *rng, _ []string) map[string]interface{} {
	depth, n := 4, 300
	if thorough {
		depth, n = 5, 3000
	}
	cnt := runClientExhaustive(o, depth)
	runClientRandom(o, r, n, 200, true)
	retransmitRaceScenarios(o, r, 40)
	agentRefusesRetransmissionScenarios(o, r, 20)
	moreClientScenarios(o, r)
	closeErrorScenarios(o, r, 32)
	return map[string]interface{}{"exhaustive_part": fmt.Sprintf("every history of <= %d operations over {Start(id1), Start(id2), response(id1), response(id2), garbage, tick past the deadline, fail next write of instance 0 / 1, Close} x 2 configurations: %d histories", depth, cnt)}
}

func runC11(o *out, thorough bool, r *rng, _ []string) map[string]interface{} {
	n := 250
	if thorough {
		n = 3000
	}
	runClientRandom(o, r, n, 65535, false)
	moreClientScenarios(o, r)
	setRTORaceScenario(o, r, 10)
	timingScenarios(o, r)
	// schedule sweep: one transaction, clock stepped to just before / at / just after each deadline
	rtos := []int{7, 100, 1000, 3000000000, 20000000000} // up to 20 s: the last deadline lies minutes after Start
	for _, v := range litIntsIn(1000000, 1<<50, 4) {
		rtos = append(rtos, v/40, v/8, v) // durations of the library's source: deadlines on both sides of them
	}
	for _, rto := range rtos {
		for _, maxA := range []int{7, 0} {
			for _, size := range []int{20, 2048, 2052, 3024} {
				fs := []string{fNums(rto, maxA, 1, 0), withBytes([]int{1, 1, 1}, stunMsg(r, 1, size))}
				now := 0
				for k := 1; k <= 9; k++ {
					dl := now + k*rto // the k-th deadline if the previous write happened at `now`
					for _, t := range []int{dl - 1, dl, dl + 1} {
						fs = append(fs, fNums(4, t))
					}
					if k == 2 {
						fs = append(fs, fNums(6, rto*3)) // SetRTO must not affect the transaction in flight
					}
					now = dl + 1
				}
				o.run(1001, fs, true)
				o.count("deadline-sweeps")
			}
		}
	}
	return nil
}

func runC12(o *out, thorough bool, r *rng, _ []string) map[string]interface{} {
	n := 120
	if thorough {
		n = 1500
	}
	retransmitRaceScenarios(o, r, 20)
	agentRefusesRetransmissionScenarios(o, r, 20)
	moreClientScenarios(o, r)
	for i := 0; i < n; i++ {
		// many transactions in flight, responses in random order with duplicates, unknown ids, garbage
		k := r.pick([]int{1, 2, 5, 20, 60})
		if thorough && i%50 == 0 {
			k = 500
		}
		fs := []string{fNums(1000, 7, 1, r.pick([]int{0, 9}))}
		ids := r.perm(k)
		for _, id := range ids {
			fs = append(fs, withBytes([]int{1, 1 + id, 1 + id%5}, stunMsg(r, 1+id, 20)))
		}
		order := r.perm(k)
		clockNow := 0
		for _, j := range order {
			id := 1 + ids[j]
			switch r.intn(8) {
			case 0:
				fs = append(fs, withBytes([]int{3}, response(r, id^1, 0))) // one bit away
			case 1:
				fs = append(fs, withBytes([]int{3}, r.bytes(r.intn(30))))
			case 2:
				fs = append(fs, withBytes([]int{3}, response(r, 7000+r.intn(100), 4)))
			case 3:
				fs = append(fs, withBytes([]int{3}, damagedResponse(r, id))) // undecodable, with the ID of a live transaction
			case 4:
				fs = append(fs, withBytes([]int{3}, damagedResponse(r, 7000+r.intn(100))))
			case 6:
				// an indication that carries this live transaction's ID and whose Write fails: nothing about the
				// transaction changes
				fs = append(fs, fNums(7, 65535), withBytes([]int{2}, func() []byte {
					b := stunMsg(r, id, 20)
					b[0], b[1] = 0x00, 0x11
					return b
				}()))
			case 5:
				// one datagram: a response for this transaction followed, after its declared length, by a complete
				// message carrying ANOTHER live transaction's ID: bytes after the declared length are not a message
				other := 1 + ids[r.intn(len(ids))]
				fs = append(fs, withBytes([]int{3}, append(response(r, id, 4), response(r, other, 0)...)))
			}
			if r.chance(1, 4) {
				// the clock has passed this attempt's deadline and no collector tick has come yet: the response counts
				clockNow += 1001 + r.intn(3000)
				fs = append(fs, fNums(5, clockNow))
			}
			sz := r.pick([]int{0, 4, 40})
			if r.chance(1, 20) {
				sz = r.pick([]int{996, 1000, 1004, 1100}) // around the 1024-byte read buffer
			}
			fs = append(fs, withBytes([]int{3}, response(r, id, sz)))
			if r.chance(1, 6) {
				fs = append(fs, withBytes([]int{3}, response(r, id, 0))) // duplicate
			}
		}
		o.run(1001, fs, true)
		o.countN("transactions", k)
	}
	// a long run of datagrams that do not decode (more than any "too many errors" threshold one might invent),
	// then the response: it still reaches its transaction
	runs := []int{63, 64, 65, 200, 1100}
	for _, n := range litIntsIn(8, 3000, 8) {
		runs = append(runs, n-1, n, n+1) // numbers of the library's source that could be a limit on consecutive failures
	}
	for _, run := range runs {
		fs := []string{fNums(1000, 7, 1, 9), withBytes([]int{1, 5, 2}, stunMsg(r, 5, 20))}
		for k := 0; k < run; k++ {
			switch k % 3 {
			case 0:
				fs = append(fs, withBytes([]int{3}, r.bytes(1+r.intn(30))))
			case 1:
				fs = append(fs, withBytes([]int{3}, damagedResponse(r, 5)))
			default:
				fs = append(fs, withBytes([]int{3}, []byte{0}))
			}
		}
		fs = append(fs, withBytes([]int{3}, response(r, 5, 4)), fNums(8))
		o.run(1001, fs, true)
		o.count("garbage-run-then-response")
	}
	// sequential reuse of pooled transaction objects across thousands of transactions
	reps := 3
	if thorough {
		reps = 20
	}
	for rep := 0; rep < reps; rep++ {
		fs := []string{fNums(1000, 7, 1, 9)}
		for i := 0; i < 400; i++ {
			id := 1 + r.intn(3000)
			fs = append(fs, withBytes([]int{1, id, 1 + i%5}, stunMsg(r, id, 20+4*r.intn(3))))
			if r.chance(7, 8) {
				fs = append(fs, withBytes([]int{3}, response(r, id, 4*r.intn(3))))
			}
		}
		o.run(1001, fs, true)
		o.countN("sequential-transactions", 400)
	}
	return nil
}

func runC15(o *out, thorough bool, r *rng, _ []string) map[string]interface{} {
	n := 250
	if thorough {
		n = 3000
	}
	setRTORaceScenario(o, r, 10)
	closeLivenessScenarios(o, r)
	moreCloseShapes(o, r)
	for i := 0; i < n; i++ {
		g := &clientGen{r: r, rto: r.pick([]int{10, 100}), maxA: r.pick([]int{7, 0}), maxSize: 200}
		fs := g.history(r.rangeIn(0, 12))
		cfg := parseField(fs[0])
		cfg[2] = i % 2 // closeConn / WithNoConnClose
		cfg[3] = r.pick([]int{0, 9})
		fs[0] = fNums(cfg...)
		// one or several Close calls, then everything must be refused without a write
		fs = append(fs, fNums(8))
		for k := r.intn(3); k > 0; k-- {
			fs = append(fs, fNums(8))
		}
		fs = append(fs, withBytes([]int{1, 77, 1}, stunMsg(r, 77, 20)), withBytes([]int{1, 78, 101}, stunMsg(r, 78, 20)),
			withBytes([]int{2}, stunMsg(r, 0, 20)), fNums(4, 1_000_000), fNums(6, 5))
		before := runtime.NumGoroutine()
		o.run(1001, fs, true)
		// goroutines: reader and collector have exited when Close returns (allow the runtime a moment)
		leaked := true
		for k := 0; k < 50; k++ {
			if runtime.NumGoroutine() <= before {
				leaked = false
				break
			}
			time.Sleep(time.Millisecond)
		}
		if leaked {
			o.failFor("C15", "goroutine-leak", "1001 "+strings.Join(fs, " "))
		}
		o.count(fmt.Sprintf("closeConn:%d", cfg[2]))
	}
	closeErrorScenarios(o, r, 64)
	reentrantHandlerScenarios(o, r, 24)
	defaultCollectorScenarios(o, r, 40)
	simultaneousCloses(o, thorough)
	closeReentryScenarios(o, r)
	return nil
}

// closeReentryScenarios (oracles in Go): (a) the handler of an in-flight transaction (Start, or the callback of Do)
// calls Close when it is told that the client is shutting down - it runs on the closing goroutine, inside Close:
// the nested call returns ErrClientClosed and the outer one completes; (b) a handler on the reader goroutine is
// blocked in a nested Do whose reply never comes when Close is called: Close fails that transaction, the Do
// returns, the reader exits, Close completes.
func closeReentryScenarios(o *out, r *rng) {
	mk := func(opts ...stun.ClientOption) (*stun.Client, *raceConn) {
		conn := &raceConn{rd: make(chan []byte), closedCh: make(chan struct{}), writes: map[[12]byte]int{},
			held: make(chan struct{}, 1), release: make(chan struct{}), idle: make(chan struct{}, 1)}
		all := append([]stun.ClientOption{stun.WithClock(&vclock{now: agentBase}), stun.WithCollector(&manualCollector{}), stun.WithRTO(time.Hour)}, opts...)
		c, err := stun.NewClient(conn, all...)
		if err != nil {
			return nil, nil
		}
		select {
		case <-conn.idle:
		case <-time.After(2 * time.Second):
		}
		return c, conn
	}
	for i := 0; i < 12; i++ {
		c, _ := mk()
		if c == nil {
			continue
		}
		id := 9100 + i
		tid := clientTID(id)
		raw := stunMsg(r, 1, 20)
		copy(raw[8:20], tid[:])
		var mu sync.Mutex
		var nested []error
		calls := 0
		h := func(ev stun.Event) {
			err := c.Close()
			mu.Lock()
			calls++
			nested = append(nested, err)
			mu.Unlock()
		}
		doDone := make(chan error, 1)
		if i%2 == 0 {
			_ = c.Start(&stun.Message{TransactionID: tid, Raw: raw}, h)
			doDone <- nil
		} else {
			go func() { doDone <- c.Do(&stun.Message{TransactionID: tid, Raw: raw}, h) }()
			time.Sleep(3 * time.Millisecond)
		}
		cd := make(chan error, 1)
		go func() { cd <- c.Close() }()
		line := fmt.Sprintf("x handler-calls-Close-during-Close #%d (%s)", i, []string{"Start", "Do"}[i%2])
		select {
		case cerr := <-cd:
			select {
			case <-doDone:
			case <-time.After(3 * time.Second):
				o.failFor("C15", "deadlock-handler-calls-back-into-client", line+": Do did not return")
				clientStuck.Add(1)
			}
			mu.Lock()
			if cerr != nil || calls != 1 || len(nested) != 1 || !errors.Is(nested[0], stun.ErrClientClosed) {
				o.failFor("C15", "close-not-once", fmt.Sprintf("%s: outer Close returned %v, handler ran %d times, nested Close returned %v", line, cerr, calls, nested))
			}
			mu.Unlock()
		case <-time.After(4 * time.Second):
			o.failFor("C15", "deadlock-handler-calls-back-into-client", line+": Close did not return within 4 s")
			clientStuck.Add(3)
		}
		o.count("handler-calls-Close-during-Close")
	}
	for i := 0; i < 8; i++ {
		var c *stun.Client
		id := 9200 + i
		tid := clientTID(id)
		raw := stunMsg(r, 1, 20)
		copy(raw[8:20], tid[:])
		var mu sync.Mutex
		var inner []error
		var doRet []error
		entered := make(chan struct{}, 1)
		fallback := func(stun.Event) {
			select {
			case entered <- struct{}{}:
			default:
			}
			err := c.Do(&stun.Message{TransactionID: tid, Raw: raw}, func(ev stun.Event) {
				mu.Lock()
				inner = append(inner, ev.Error)
				mu.Unlock()
			})
			mu.Lock()
			doRet = append(doRet, err)
			mu.Unlock()
		}
		var conn *raceConn
		c, conn = mk(stun.WithHandler(fallback))
		if c == nil {
			continue
		}
		go func() {
			select {
			case conn.rd <- response(r, 4300+i, 0): // matches no transaction: the fallback handler runs on the reader
			case <-time.After(2 * time.Second):
			}
		}()
		select {
		case <-entered:
		case <-time.After(2 * time.Second):
		}
		for k := 0; k < 200; k++ { // until the nested Do has written its request
			conn.mu.Lock()
			w := conn.writes[tid]
			conn.mu.Unlock()
			if w > 0 {
				break
			}
			time.Sleep(time.Millisecond)
		}
		cd := make(chan error, 1)
		go func() { cd <- c.Close() }()
		line := fmt.Sprintf("x Close-while-a-handler-is-blocked-in-a-nested-Do #%d", i)
		select {
		case cerr := <-cd:
			time.Sleep(2 * time.Millisecond)
			mu.Lock()
			if cerr != nil || len(inner) != 1 || inner[0] == nil || len(doRet) != 1 {
				o.failFor("C15", "close-not-once", fmt.Sprintf("%s: Close returned %v, the nested Do's callback got %v, Do returned %v", line, cerr, inner, doRet))
			}
			mu.Unlock()
		case <-time.After(4 * time.Second):
			o.failFor("C15", "deadlock-handler-calls-back-into-client", line+": Close did not return within 4 s")
			clientStuck.Add(3)
		}
		o.count("close-while-handler-in-nested-Do")
	}
}

// countingConn: Close calls counted; Read blocks until the first of them
type countingConn struct {
	closedCh chan struct{}
	closes   atomic.Int32
}

func (c *countingConn) Read([]byte) (int, error) { <-c.closedCh; return 0, io.ErrClosedPipe }
func (c *countingConn) Write(p []byte) (int, error) { return len(p), nil }
func (c *countingConn) Close() error {
	if c.closes.Add(1) == 1 {
		close(c.closedCh)
	}
	return nil
}

// simultaneousCloses: several goroutines call Close on one client at the same instant (released together from a
// spinning barrier), thousands of fresh clients: exactly one call does the shutdown and returns nil, the others
// return ErrClientClosed, connection and collector are closed once, nothing panics.
func simultaneousCloses(o *out, thorough bool) {
	rounds := 4000
	if thorough {
		rounds = 40000
	}
	prev := runtime.GOMAXPROCS(0)
	if prev < 4 {
		runtime.GOMAXPROCS(4)
		defer runtime.GOMAXPROCS(prev)
	}
	for round := 0; round < rounds; round++ {
		conn := &countingConn{closedCh: make(chan struct{})}
		coll := &manualCollector{}
		c, err := stun.NewClient(conn, stun.WithCollector(coll), stun.WithRTO(time.Second))
		if err != nil {
			continue
		}
		workers := 2 + round%3
		var ready, nils, refused, panics, other atomic.Int32
		var wg sync.WaitGroup
		for w := 0; w < workers; w++ {
			wg.Add(1)
			go func() {
				defer wg.Done()
				ready.Add(1)
				for ready.Load() < int32(workers) {
				}
				var cerr error
				pan, _ := guarded(func() { cerr = c.Close() })
				switch {
				case pan:
					panics.Add(1)
				case cerr == nil:
					nils.Add(1)
				case errors.Is(cerr, stun.ErrClientClosed):
					refused.Add(1)
				default:
					other.Add(1)
				}
			}()
		}
		wg.Wait()
		coll.mu.Lock()
		collCloses := coll.closes
		coll.mu.Unlock()
		if panics.Load() != 0 || nils.Load() != 1 || int(refused.Load()) != workers-1 || conn.closes.Load() != 1 || collCloses != 1 {
			o.failFor("C15", "close-not-once", fmt.Sprintf("x %d goroutines call Close on one client at the same instant (round %d): %d returned nil, %d ErrClientClosed, %d something else, %d panicked; connection closed %d times, collector %d times",
				workers, round, nils.Load(), refused.Load(), other.Load(), panics.Load(), conn.closes.Load(), collCloses))
			break
		}
	}
	o.countN("simultaneous-closes", rounds)
}

// errAgent: a ClientAgent whose Close does its work and then reports an error
type errAgent struct {
	*stun.Agent
	err error
}

func (a *errAgent) Close() error {
	_ = a.Agent.Close()
	return a.err
}

var errScriptedAgentClose = errors.New("scripted agent close error")
var errScriptedConnClose = errors.New("scripted connection close error")

// closeErrorScenarios (oracle in Go, no model): Close with a failing agent and / or a failing connection
// still does all of its work exactly once — CloseErr carries exactly the errors, the connection is closed
// once (never under WithNoConnClose), the reader has left Read, every transaction was completed, and
// afterwards everything is refused without a write.
func closeErrorScenarios(o *out, r *rng, n int) {
	for i := 0; i < n; i++ {
		agentFails, connFails, noConnClose := i&1 != 0, i&2 != 0, i&4 != 0
		h := &clientHarness{o: o, line: fmt.Sprintf("x close-errors agent=%v conn=%v noconnclose=%v", agentFails, connFails, noConnClose),
			tidInst: map[[12]byte]int{}, attempts: map[int]int{}}
		clock := &vclock{now: agentBase}
		conn := &scriptConn{rd: make(chan []byte), idle: make(chan struct{}, 1), closedCh: make(chan struct{}),
			failInst: map[int]bool{}, clock: clock, h: h, unblock: make(chan struct{})}
		if connFails {
			conn.closeErr = []error{errScriptedConnClose, net.ErrClosed, io.ErrClosedPipe, fmt.Errorf("close tcp: %w", net.ErrClosed)}[(i/8)%4]
		}
		opts := []stun.ClientOption{stun.WithClock(clock), stun.WithCollector(&manualCollector{}), stun.WithRTO(time.Millisecond)}
		if agentFails {
			opts = append(opts, stun.WithAgent(&errAgent{Agent: stun.NewAgent(nil), err: errScriptedAgentClose}))
		}
		if noConnClose {
			opts = append(opts, stun.WithNoConnClose())
		}
		c, err := stun.NewClient(conn, opts...)
		if err != nil {
			o.failFor("C15", "client-not-created", h.line)
			continue
		}
		waitIdle(conn)
		var mu sync.Mutex
		invoked := map[int]int{}
		k := r.intn(4)
		if i%16 == 5 {
			k = r.rangeIn(101, 160) // more than a hundred transactions in flight at Close
		}
		for j := 0; j < k; j++ {
			jj := j
			m := &stun.Message{TransactionID: clientTID(500 + j), Raw: stunMsg(r, 500+j, 20)}
			_ = c.Start(m, func(stun.Event) { mu.Lock(); invoked[jj]++; mu.Unlock() })
		}
		done := make(chan error, 1)
		go func() { done <- c.Close() }()
		var cerr error
		if noConnClose {
			select {
			case cerr = <-done:
				if conn.inRead.Load() > 0 {
					o.failFor("C15", "close-returned-while-reader-in-read", h.line)
				}
				close(conn.unblock)
			case <-time.After(2 * time.Millisecond):
				close(conn.unblock)
				select {
				case cerr = <-done:
				case <-time.After(5 * time.Second):
					o.failFor("C15", "close-did-not-return", h.line)
					continue
				}
			}
		} else {
			select {
			case cerr = <-done:
			case <-time.After(5 * time.Second):
				o.failFor("C15", "close-did-not-return", h.line)
				continue
			}
		}
		var ce stun.CloseErr
		wantErr := agentFails || (connFails && !noConnClose)
		switch {
		case !wantErr && cerr != nil:
			o.failFor("C15", "close-error-unexpected", h.line+" got "+fmt.Sprint(cerr))
		case wantErr && !errors.As(cerr, &ce):
			o.failFor("C15", "close-error-not-reported", h.line+" got "+fmt.Sprint(cerr))
		case wantErr:
			if (ce.AgentErr != nil) != agentFails || (ce.ConnectionErr != nil) != (connFails && !noConnClose) {
				o.failFor("C15", "close-error-wrong-parts", h.line+" got "+fmt.Sprint(cerr))
			}
		}
		if conn.inRead.Load() > 0 {
			o.failFor("C15", "close-returned-while-reader-in-read", h.line)
		}
		wantCloses := 1
		if noConnClose {
			wantCloses = 0
		}
		conn.mu.Lock()
		nc := conn.closes
		conn.mu.Unlock()
		if nc != wantCloses {
			o.failFor("C15", "connection-close-count", fmt.Sprintf("%s closes=%d want=%d", h.line, nc, wantCloses))
		}
		mu.Lock()
		for j := 0; j < k; j++ {
			if invoked[j] != 1 {
				o.failFor("C10", "transaction-not-completed-by-close", fmt.Sprintf("%s j=%d invoked=%d", h.line, j, invoked[j]))
			}
		}
		mu.Unlock()
		h.closedOK = true
		if !errors.Is(c.Close(), stun.ErrClientClosed) {
			o.failFor("C15", "second-close-not-refused", h.line)
		}
		m := &stun.Message{TransactionID: clientTID(999), Raw: stunMsg(r, 999, 20)}
		if !errors.Is(c.Start(m, func(stun.Event) {}), stun.ErrClientClosed) || !errors.Is(c.Indicate(m), stun.ErrClientClosed) {
			o.failFor("C15", "use-after-close-not-refused", h.line)
		}
		o.count(fmt.Sprintf("close-errors:agent=%v,conn=%v,noconnclose=%v", agentFails, connFails, noConnClose))
	}
}

func (r *rng) perm(n int) []int {
	p := make([]int, n)
	for i := range p {
		p[i] = i
	}
	for i := n - 1; i > 0; i-- {
		j := r.intn(i + 1)
		p[i], p[j] = p[j], p[i]
	}
	return p
}

// ---- targeted interleaving (oracle in Go, no model): a response arrives while a retransmission's Write is
// in progress, and that Write then fails.  The transaction object then belongs to the reader's callback
// (which completes it and gives it back to the pool); the retransmission path must not complete or
// recycle it a second time.  Observable consequence of a double recycle: two later transactions share
// one pooled object, so one handler is never invoked and the other is invoked for the wrong response.
type raceConn struct {
	rd       chan []byte
	closedCh chan struct{}
	once     sync.Once
	mu       sync.Mutex
	writes   map[[12]byte]int
	holdTID  [12]byte
	holdOn   bool
	holdFirst bool // hold the very first write of holdTID (the one made by Start), not only retransmissions
	held     chan struct{}
	release  chan struct{}
	idle     chan struct{}
	mutated  bool // the slice given to a held Write changed while the Write was in progress
	holdSucceeds bool     // the held Write reports success when released
	short        bool     // every Write reports half of the bytes written and no error
	log          [][]byte // with short: every Write's bytes
}

func (c *raceConn) Read(p []byte) (int, error) {
	select {
	case c.idle <- struct{}{}:
	default:
	}
	select {
	case d := <-c.rd:
		return copy(p, d), nil
	case <-c.closedCh:
		return 0, io.ErrClosedPipe
	}
}

func (c *raceConn) Write(p []byte) (int, error) {
	var tid [12]byte
	if len(p) >= 20 {
		copy(tid[:], p[8:20])
	}
	c.mu.Lock()
	c.writes[tid]++
	n := c.writes[tid]
	hold := c.holdOn && tid == c.holdTID && (n >= 2 || c.holdFirst)
	if hold {
		c.holdOn = false
	}
	short, holdSucceeds := c.short, c.holdSucceeds
	if short {
		c.log = append(c.log, append([]byte(nil), p...))
	}
	c.mu.Unlock()
	if short {
		return len(p) / 2, nil
	}
	if hold {
		snap := append([]byte(nil), p...)
		c.held <- struct{}{}
		<-c.release
		if !bytes.Equal(snap, p) {
			c.mu.Lock()
			c.mutated = true
			c.mu.Unlock()
		}
		if holdSucceeds {
			return len(p), nil
		}
		return 0, errScriptedWrite
	}
	return len(p), nil
}
func (c *raceConn) Close() error { c.once.Do(func() { close(c.closedCh) }); return nil }

func retransmitRaceScenarios(o *out, r *rng, n int) {
	for i := 0; i < n; i++ {
		line := fmt.Sprintf("x response-during-failing-retransmission-write #%d", i)
		clock := &vclock{now: agentBase}
		conn := &raceConn{rd: make(chan []byte), closedCh: make(chan struct{}), writes: map[[12]byte]int{},
			held: make(chan struct{}, 1), release: make(chan struct{}), idle: make(chan struct{}, 1)}
		coll := &manualCollector{}
		c, err := stun.NewClient(conn, stun.WithClock(clock), stun.WithCollector(coll), stun.WithRTO(100))
		if err != nil {
			continue
		}
		waitIdleCh := func() bool {
			select {
			case <-conn.idle:
				return true
			case <-time.After(2 * time.Second):
				return false
			}
		}
		waitIdleCh()
		var mu sync.Mutex
		invoked := map[int][]int{} // id -> transaction ids of the events its handler received
		start := func(id int) error {
			m := &stun.Message{TransactionID: clientTID(id), Raw: stunMsg(r, id, 20)}
			return c.Start(m, func(e stun.Event) {
				mu.Lock()
				invoked[id] = append(invoked[id], agentIDOf(e.TransactionID))
				mu.Unlock()
			})
		}
		id0 := 100 + i%50
		conn.mu.Lock()
		conn.holdTID, conn.holdOn = clientTID(id0), true
		conn.mu.Unlock()
		_ = start(id0)
		// the collector fires after the first deadline: the retransmission's Write blocks
		now := agentBase.Add(101)
		clock.set(now)
		tickDone := make(chan struct{})
		go func() { coll.f(now); close(tickDone) }()
		select {
		case <-conn.held:
		case <-time.After(2 * time.Second):
			o.failFor("C10", "retransmission-not-attempted", line)
			_ = c.Close()
			continue
		}
		// the response arrives meanwhile and is handled by the reader goroutine
		conn.rd <- response(r, id0, 0)
		waitIdleCh()
		close(conn.release) // now the retransmission's Write fails
		<-tickDone
		mu.Lock()
		n0 := len(invoked[id0])
		mu.Unlock()
		if n0 != 1 {
			o.failFor("C10", "handler-invoked-twice", fmt.Sprintf("%s id=%d invoked=%d", line, id0, n0))
		}
		// two further transactions must be independent objects: each gets exactly its own response
		a, b := 200+i%50, 300+i%50
		_ = start(a)
		_ = start(b)
		conn.rd <- response(r, b, 0)
		waitIdleCh()
		conn.rd <- response(r, a, 0)
		waitIdleCh()
		mu.Lock()
		okA := len(invoked[a]) == 1 && invoked[a][0] == a
		okB := len(invoked[b]) == 1 && invoked[b][0] == b
		mu.Unlock()
		if !okA || !okB {
			o.failFor("C12", "pooled-transaction-recycled-twice", fmt.Sprintf("%s a=%v b=%v", line, invoked[a], invoked[b]))
			o.failFor("C10", "pooled-transaction-recycled-twice", fmt.Sprintf("%s a=%v b=%v", line, invoked[a], invoked[b]))
		}
		_ = c.Close()
		o.count("response-during-failing-retransmission-write")
	}
}

// reentrantHandlerScenarios (oracle in Go, no model): the WithHandler handler calls back into the client
// (Indicate, Start, SetRTO, Close) when an unsolicited message arrives — the usual TURN pattern.  No client
// lock may be held while it runs: the reader must come back, and Close must return.
func reentrantHandlerScenarios(o *out, r *rng, n int) {
	for i := 0; i < n; i++ {
		line := fmt.Sprintf("x handler-calls-back-into-client #%d mode=%d", i, i%4)
		clock := &vclock{now: agentBase}
		conn := &raceConn{rd: make(chan []byte), closedCh: make(chan struct{}), writes: map[[12]byte]int{},
			held: make(chan struct{}, 1), release: make(chan struct{}), idle: make(chan struct{}, 1)}
		var c *stun.Client
		calls := 0
		var mu sync.Mutex
		fallback := func(e stun.Event) {
			mu.Lock()
			calls++
			mu.Unlock()
			m := &stun.Message{TransactionID: clientTID(700 + i), Raw: stunMsg(r, 700+i, 20)}
			switch i % 4 {
			case 0:
				_ = c.Indicate(m)
			case 1:
				_ = c.Start(m, func(stun.Event) {})
			case 2:
				c.SetRTO(50)
				_ = c.Indicate(m)
			default:
				go func() { _ = c.Close() }() // Close waits for the reader: from another goroutine
				_ = c.Indicate(m)
			}
		}
		var err error
		c, err = stun.NewClient(conn, stun.WithClock(clock), stun.WithCollector(&manualCollector{}), stun.WithHandler(fallback))
		if err != nil {
			continue
		}
		select {
		case <-conn.idle:
		case <-time.After(2 * time.Second):
		}
		done := make(chan struct{})
		go func() {
			conn.rd <- response(r, 4242, 0) // matches no transaction: goes to the fallback handler
			close(done)
		}()
		ok := false
		select {
		case <-done:
			select {
			case <-conn.idle:
				ok = true
			case <-conn.closedCh:
				ok = true
			case <-time.After(2 * time.Second):
			}
		case <-time.After(2 * time.Second):
		}
		if !ok {
			o.failFor("C15", "deadlock-handler-calls-back-into-client", line)
			clientStuck.Add(1)
			continue
		}
		cd := make(chan error, 1)
		go func() { cd <- c.Close() }()
		select {
		case <-cd:
		case <-time.After(3 * time.Second):
			o.failFor("C15", "close-did-not-return", line)
		}
		o.count("handler-calls-back-into-client")
	}
}

// refusingAgent: a ClientAgent (stock Agent inside) that refuses the n-th Start of a chosen transaction —
// what a custom agent may legitimately do; the client must then complete and forget the transaction.
type refusingAgent struct {
	*stun.Agent
	mu     sync.Mutex
	starts map[[12]byte]int
	refuse map[[12]byte]int // id -> which Start (1-based) is refused
}

var errAgentRefuses = errors.New("scripted agent refusal")

func (a *refusingAgent) Start(id [stun.TransactionIDSize]byte, deadline time.Time) error {
	a.mu.Lock()
	a.starts[id]++
	n := a.starts[id]
	r := a.refuse[id]
	a.mu.Unlock()
	if r != 0 && n == r {
		return errAgentRefuses
	}
	return a.Agent.Start(id, deadline)
}

// agentRefusesRetransmissionScenarios (oracle in Go, no model): the agent refuses the Start of a
// retransmission.  The transaction is completed once with that error and forgotten; the pooled object it
// used is then recycled by further transactions, and a late response for the old ID reaches nobody.
func agentRefusesRetransmissionScenarios(o *out, r *rng, n int) {
	for i := 0; i < n; i++ {
		line := fmt.Sprintf("x agent-refuses-retransmission #%d", i)
		clock := &vclock{now: agentBase}
		conn := &raceConn{rd: make(chan []byte), closedCh: make(chan struct{}), writes: map[[12]byte]int{},
			held: make(chan struct{}, 1), release: make(chan struct{}), idle: make(chan struct{}, 1)}
		coll := &manualCollector{}
		id0 := 100 + i%50
		ag := &refusingAgent{Agent: stun.NewAgent(nil), starts: map[[12]byte]int{}, refuse: map[[12]byte]int{clientTID(id0): 2}}
		fbCalls := 0
		var mu sync.Mutex
		c, err := stun.NewClient(conn, stun.WithClock(clock), stun.WithCollector(coll), stun.WithRTO(100), stun.WithAgent(ag),
			stun.WithHandler(func(stun.Event) { mu.Lock(); fbCalls++; mu.Unlock() }))
		if err != nil {
			continue
		}
		waitIdleCh := func() {
			select {
			case <-conn.idle:
			case <-time.After(2 * time.Second):
			}
		}
		waitIdleCh()
		invoked := map[int][]int{}
		start := func(id int) error {
			m := &stun.Message{TransactionID: clientTID(id), Raw: stunMsg(r, id, 20)}
			return c.Start(m, func(e stun.Event) {
				mu.Lock()
				invoked[id] = append(invoked[id], agentIDOf(e.TransactionID))
				mu.Unlock()
			})
		}
		_ = start(id0)
		now := agentBase.Add(101)
		clock.set(now)
		coll.f(now) // retransmission: the agent refuses its Start
		a, b := 200+i%50, 300+i%50
		_ = start(a)
		_ = start(b)
		conn.rd <- response(r, id0, 0) // late response for the refused transaction
		waitIdleCh()
		conn.rd <- response(r, b, 0)
		waitIdleCh()
		conn.rd <- response(r, a, 0)
		waitIdleCh()
		mu.Lock()
		ok0 := len(invoked[id0]) == 1
		okA := len(invoked[a]) == 1 && invoked[a][0] == a
		okB := len(invoked[b]) == 1 && invoked[b][0] == b
		fb := fbCalls
		mu.Unlock()
		if !ok0 || !okA || !okB || fb != 1 {
			o.failFor("C12", "event-delivered-to-another-transaction", fmt.Sprintf("%s refused=%v a=%v b=%v fallback=%d", line, invoked[id0], invoked[a], invoked[b], fb))
			o.failFor("C10", "event-delivered-to-another-transaction", fmt.Sprintf("%s refused=%v a=%v b=%v fallback=%d", line, invoked[id0], invoked[a], invoked[b], fb))
		}
		_ = c.Close()
		o.count("agent-refuses-retransmission")
	}
}

// goroutinesIn: number of goroutines whose stack contains the given function name
func goroutinesIn(fn string) int {
	buf := make([]byte, 1<<20)
	n := runtime.Stack(buf, true)
	cnt := 0
	for _, blk := range strings.Split(string(buf[:n]), "\n\n") {
		if strings.Contains(blk, fn) {
			cnt++
		}
	}
	return cnt
}

// defaultCollectorScenarios (oracle in Go): a client with the library's own ticker collector and the real
// clock; when Close has returned, no goroutine is left in the reader loop or in the collector's ticker.
func defaultCollectorScenarios(o *out, r *rng, n int) {
	for i := 0; i < n; i++ {
		line := fmt.Sprintf("x default-collector #%d noconnclose=%v", i, i%2 == 1)
		h := &clientHarness{o: o, line: line, tidInst: map[[12]byte]int{}, attempts: map[int]int{}}
		conn := &scriptConn{rd: make(chan []byte), idle: make(chan struct{}, 1), closedCh: make(chan struct{}),
			failInst: map[int]bool{}, clock: &vclock{now: agentBase}, h: h, unblock: make(chan struct{})}
		opts := []stun.ClientOption{stun.WithRTO(time.Millisecond), stun.WithTimeoutRate(time.Millisecond)}
		if i%2 == 1 {
			opts = append(opts, stun.WithNoConnClose())
		}
		c, err := stun.NewClient(conn, opts...)
		if err != nil {
			continue
		}
		waitIdle(conn)
		var mu sync.Mutex
		invoked := 0
		k := r.intn(3)
		for j := 0; j < k; j++ {
			m := &stun.Message{TransactionID: clientTID(600 + j), Raw: stunMsg(r, 600+j, 20)}
			_ = c.Start(m, func(stun.Event) { mu.Lock(); invoked++; mu.Unlock() })
		}
		time.Sleep(time.Duration(r.intn(4)) * time.Millisecond) // let the ticker fire a few times
		done := make(chan error, 1)
		go func() { done <- c.Close() }()
		if i%2 == 1 {
			time.Sleep(time.Millisecond)
			close(conn.unblock)
		}
		select {
		case <-done:
		case <-time.After(5 * time.Second):
			o.failFor("C15", "close-did-not-return", line)
			clientStuck.Add(1)
			continue
		}
		left := 0
		for t := 0; t < 50; t++ {
			left = goroutinesIn("(*Client).readUntilClosed") + goroutinesIn("(*tickerCollector).Start")
			if left == 0 {
				break
			}
			time.Sleep(time.Millisecond)
		}
		if left != 0 {
			o.failFor("C15", "goroutine-leak", fmt.Sprintf("%s reader/collector goroutines still running: %d", line, left))
		}
		mu.Lock()
		if invoked != k {
			o.failFor("C10", "transaction-not-completed-by-close", fmt.Sprintf("%s started=%d invoked=%d", line, k, invoked))
		}
		mu.Unlock()
		o.count("default-collector-scenarios")
	}
}

func startTID2(c *stun.Client, tid [12]byte, raw []byte) error {
	return c.Start(&stun.Message{TransactionID: tid, Raw: raw}, func(stun.Event) {})
}

// moreClientScenarios (oracles in Go, no model): interleavings and API uses that the scripted histories cannot
// express.
func moreClientScenarios(o *out, r *rng) {
	type env struct {
		c       *stun.Client
		conn    *raceConn
		coll    *manualCollector
		clock   *vclock
		gate    *gateAgent
		mu      sync.Mutex
		invoked map[int][]int
	}
	mk := func(withGate bool, opts ...stun.ClientOption) *env {
		e := &env{clock: &vclock{now: agentBase}, coll: &manualCollector{}, invoked: map[int][]int{}}
		e.conn = &raceConn{rd: make(chan []byte), closedCh: make(chan struct{}), writes: map[[12]byte]int{},
			held: make(chan struct{}, 1), release: make(chan struct{}), idle: make(chan struct{}, 1)}
		all := []stun.ClientOption{stun.WithClock(e.clock), stun.WithCollector(e.coll), stun.WithRTO(100)}
		if withGate {
			e.gate = &gateAgent{Agent: stun.NewAgent(nil), inflight: make(chan struct{}, 1), release: make(chan struct{}), startPaused: make(chan struct{}, 1)}
			all = append(all, stun.WithAgent(e.gate))
		}
		c, err := stun.NewClient(e.conn, append(all, opts...)...)
		if err != nil {
			return nil
		}
		e.c = c
		select {
		case <-e.conn.idle:
		case <-time.After(2 * time.Second):
		}
		return e
	}
	idle := func(e *env) {
		select {
		case <-e.conn.idle:
		case <-time.After(2 * time.Second):
		}
	}
	startTID := func(e *env, key int, tid [12]byte, size int) error {
		raw := stunMsg(r, 1, size)
		copy(raw[8:20], tid[:])
		m := &stun.Message{TransactionID: tid, Raw: raw}
		return e.c.Start(m, func(ev stun.Event) {
			e.mu.Lock()
			e.invoked[key] = append(e.invoked[key], agentIDOf(ev.TransactionID))
			e.mu.Unlock()
		})
	}
	count := func(e *env, key int) int {
		e.mu.Lock()
		defer e.mu.Unlock()
		return len(e.invoked[key])
	}
	// (1) three parties: the retransmission's Write is in progress; the reader has passed agent.Process for
	// the response but its event has not reached the client yet; then the Write fails
	for i := 0; i < 20; i++ {
		e := mk(true)
		if e == nil {
			continue
		}
		id := 100 + i
		e.conn.mu.Lock()
		e.conn.holdTID, e.conn.holdOn = clientTID(id), true
		e.conn.mu.Unlock()
		_ = startTID(e, id, clientTID(id), 20)
		now := agentBase.Add(101)
		e.clock.set(now)
		tickDone := make(chan struct{})
		go func() { e.coll.f(now); close(tickDone) }()
		select {
		case <-e.conn.held:
		case <-time.After(2 * time.Second):
			_ = e.c.Close()
			continue
		}
		e.gate.arm()
		go func() { e.conn.rd <- response(r, id, 0) }()
		select {
		case <-e.gate.inflight:
		case <-time.After(2 * time.Second):
		}
		close(e.conn.release) // the Write fails now
		<-tickDone
		close(e.gate.release) // the response event reaches the client
		idle(e)
		if n := count(e, id); n != 1 {
			o.failFor("C10", "handler-not-invoked-exactly-once", fmt.Sprintf("x failed-retransmission-while-response-in-transit #%d invoked=%d", i, n))
		}
		_ = e.c.Close()
		o.count("three-party-interleaving")
	}
	// (2) a large request whose retransmission is being written while the transaction completes and its pooled
	// object is reused by another large request: the bytes handed to Write must not change under it
	for i := 0; i < 20; i++ {
		e := mk(false)
		if e == nil {
			continue
		}
		id := 100 + i
		e.conn.mu.Lock()
		e.conn.holdTID, e.conn.holdOn = clientTID(id), true
		e.conn.mu.Unlock()
		_ = startTID(e, id, clientTID(id), 3000)
		now := agentBase.Add(101)
		e.clock.set(now)
		tickDone := make(chan struct{})
		go func() { e.coll.f(now); close(tickDone) }()
		select {
		case <-e.conn.held:
		case <-time.After(2 * time.Second):
			_ = e.c.Close()
			continue
		}
		e.conn.rd <- response(r, id, 0)
		idle(e)
		_ = startTID(e, id+1000, clientTID(id+1000), 3000) // reuses the pooled transaction object
		close(e.conn.release)
		<-tickDone
		e.conn.mu.Lock()
		mut := e.conn.mutated
		e.conn.mu.Unlock()
		if mut {
			o.failFor("C11", "retransmission-buffer-changed-during-write", fmt.Sprintf("x #%d", i))
			o.failFor("C10", "retransmission-buffer-changed-during-write", fmt.Sprintf("x #%d", i))
		}
		_ = e.c.Close()
		o.count("write-buffer-stability")
	}
	// (3) a handler that retries with the same ID from inside the callback; (4) the all-zero transaction ID
	for i := 0; i < 20; i++ {
		e := mk(false)
		if e == nil {
			continue
		}
		id := 100 + i
		tid := clientTID(id)
		if i%2 == 1 {
			tid = [12]byte{}
		}
		second := 0
		raw := stunMsg(r, 1, 20)
		copy(raw[8:20], tid[:])
		first := 0
		_ = e.c.Start(&stun.Message{TransactionID: tid, Raw: raw}, func(stun.Event) {
			first++
			_ = e.c.Start(&stun.Message{TransactionID: tid, Raw: append([]byte(nil), raw...)}, func(stun.Event) { e.mu.Lock(); second++; e.mu.Unlock() })
		})
		resp := append(header(0x0101, 0, tid[:]))
		e.conn.rd <- resp
		idle(e)
		e.conn.rd <- append([]byte(nil), resp...)
		idle(e)
		e.mu.Lock()
		s2 := second
		e.mu.Unlock()
		if first != 1 || s2 != 1 {
			o.failFor("C12", "retry-with-same-id-from-handler", fmt.Sprintf("x #%d zero-id=%v first=%d second=%d", i, i%2 == 1, first, s2))
			o.failFor("C10", "retry-with-same-id-from-handler", fmt.Sprintf("x #%d zero-id=%v first=%d second=%d", i, i%2 == 1, first, s2))
		}
		_ = e.c.Close()
		o.count("retry-same-id / zero-id")
	}
	// (4b) the all-zero transaction ID through retransmissions: a timeout, then a response; and all the way to the
	// final timeout
	for i := 0; i < 8; i++ {
		e := mk(false)
		if e == nil {
			continue
		}
		var tid [12]byte
		raw := stunMsg(r, 1, 20)
		copy(raw[8:20], tid[:])
		n := 0
		var last stun.Event
		_ = e.c.Start(&stun.Message{TransactionID: tid, Raw: raw}, func(ev stun.Event) { e.mu.Lock(); n++; last = ev; e.mu.Unlock() })
		now := agentBase
		rounds := 1 + i%3
		if i >= 4 {
			rounds = 9 // more than the 7 retransmissions: ends in a timeout
		}
		for k := 1; k <= rounds; k++ {
			now = now.Add(time.Duration(100*k + 1))
			e.clock.set(now)
			e.coll.f(now)
		}
		if i < 4 {
			e.conn.rd <- header(0x0101, 0, tid[:])
			idle(e)
		}
		_ = e.c.Close()
		e.mu.Lock()
		got, lastErr := n, last.Error
		e.mu.Unlock()
		wantTimeout := i >= 4
		if got != 1 || (wantTimeout != errors.Is(lastErr, stun.ErrTransactionTimeOut)) {
			d := fmt.Sprintf("x zero-transaction-id #%d after %d collector ticks: invoked=%d error=%v", i, rounds, got, lastErr)
			o.failFor("C10", "handler-not-invoked-exactly-once", d)
			o.failFor("C11", "handler-not-invoked-exactly-once", d)
			o.failFor("C12", "handler-not-invoked-exactly-once", d)
		}
		o.count("zero-id-through-retransmissions")
	}
	// (4c) the response arrives while Start's own Write is still in progress, and that Write then fails: Start
	// reports the failure, the handler has run once - and the NEXT transaction's response still finds its handler
	for i := 0; i < 10; i++ {
		fallback := 0
		e := mk(false, stun.WithHandler(func(stun.Event) { fallback++ }))
		if e == nil {
			continue
		}
		idA, idB := 7700+i, 7800+i
		e.conn.mu.Lock()
		e.conn.holdTID, e.conn.holdOn, e.conn.holdFirst = clientTID(idA), true, true
		e.conn.mu.Unlock()
		startDone := make(chan error, 1)
		go func() { startDone <- startTID(e, idA, clientTID(idA), 20) }()
		select {
		case <-e.conn.held:
		case <-time.After(2 * time.Second):
		}
		e.conn.rd <- response(r, idA, 0)
		idle(e)
		close(e.conn.release) // the Write fails now
		select {
		case <-startDone:
		case <-time.After(2 * time.Second):
		}
		_ = startTID(e, idB, clientTID(idB), 20)
		e.conn.rd <- response(r, idB, 4)
		idle(e)
		nA, nB := count(e, idA), count(e, idB)
		if nA > 1 || nB != 1 {
			d := fmt.Sprintf("x response-during-the-first-write #%d first: invoked=%d; next transaction: invoked=%d fallback=%d", i, nA, nB, fallback)
			o.failFor("C12", "event-delivered-to-another-transaction", d)
			o.failFor("C10", "handler-not-invoked-exactly-once", d)
		}
		_ = e.c.Close()
		o.count("response-during-the-first-write")
	}
	// (4h) the response is processed the moment the agent has accepted the RE-registration of a retransmitted
	// transaction (a delegating agent does it at the end of that Start): it reaches the transaction's handler
	for i := 0; i < 8; i++ {
		id := 8300 + i
		tid := clientTID(id)
		e := &env{clock: &vclock{now: agentBase}, coll: &manualCollector{}, invoked: map[int][]int{}}
		e.conn = &raceConn{rd: make(chan []byte), closedCh: make(chan struct{}), writes: map[[12]byte]int{},
			held: make(chan struct{}, 1), release: make(chan struct{}), idle: make(chan struct{}, 1)}
		e.gate = &gateAgent{Agent: stun.NewAgent(nil), inflight: make(chan struct{}, 1), release: make(chan struct{}), startPaused: make(chan struct{}, 1)}
		starts := 0
		resp := response(r, id, 0)
		want := 2 + i%3 // the response comes with the 2nd, 3rd or 4th registration
		e.gate.afterStart = func(got [stun.TransactionIDSize]byte) {
			if got != tid {
				return
			}
			starts++
			if starts == want {
				pm := new(stun.Message)
				if stun.Decode(resp, pm) == nil {
					_ = e.gate.Agent.Process(pm)
				}
			}
		}
		fallback := 0
		c, err := stun.NewClient(e.conn, stun.WithClock(e.clock), stun.WithCollector(e.coll), stun.WithRTO(100), stun.WithAgent(e.gate),
			stun.WithHandler(func(stun.Event) { fallback++ }))
		if err != nil {
			continue
		}
		e.c = c
		idle(e)
		var evs []error
		raw := stunMsg(r, 1, 20)
		copy(raw[8:20], tid[:])
		_ = c.Start(&stun.Message{TransactionID: tid, Raw: raw}, func(ev stun.Event) {
			e.mu.Lock()
			evs = append(evs, ev.Error)
			e.mu.Unlock()
		})
		now := agentBase
		for k := 1; k <= 5; k++ {
			now = now.Add(time.Duration(100*k + 1))
			e.clock.set(now)
			e.coll.f(now)
		}
		_ = c.Close()
		e.mu.Lock()
		if len(evs) != 1 || evs[0] != nil || fallback != 0 {
			d := fmt.Sprintf("x response-at-the-re-registration #%d (processed when the agent accepted registration %d of the transaction): handler events %v, fallback handler called %d times", i, want, evs, fallback)
			o.failFor("C10", "handler-not-invoked-exactly-once", d)
			o.failFor("C12", "response-missed-its-transaction", d)
		}
		e.mu.Unlock()
		o.count("response-at-the-re-registration")
	}
	// (4e) the response is read and processed while Start's own Write is still in progress, and that Write then
	// SUCCEEDS (a synchronous in-process transport): the response reaches the transaction's handler, not the
	// fallback handler, and no timeout follows
	for i := 0; i < 10; i++ {
		fallback := 0
		e := mk(false, stun.WithHandler(func(stun.Event) { fallback++ }))
		if e == nil {
			continue
		}
		idA := 7900 + i
		e.conn.mu.Lock()
		e.conn.holdTID, e.conn.holdOn, e.conn.holdFirst, e.conn.holdSucceeds = clientTID(idA), true, true, true
		e.conn.mu.Unlock()
		var evs []error
		var gotMsg []bool
		startDone := make(chan error, 1)
		raw := stunMsg(r, 1, 20)
		tidA := clientTID(idA)
		copy(raw[8:20], tidA[:])
		go func() {
			startDone <- e.c.Start(&stun.Message{TransactionID: tidA, Raw: raw}, func(ev stun.Event) {
				e.mu.Lock()
				evs = append(evs, ev.Error)
				gotMsg = append(gotMsg, ev.Message != nil)
				e.mu.Unlock()
			})
		}()
		select {
		case <-e.conn.held:
		case <-time.After(2 * time.Second):
		}
		e.conn.rd <- response(r, idA, 0)
		idle(e)
		close(e.conn.release)
		var serr error
		select {
		case serr = <-startDone:
		case <-time.After(2 * time.Second):
		}
		now := agentBase
		for k := 1; k <= 9; k++ {
			now = now.Add(time.Duration(100*k + 1))
			e.clock.set(now)
			e.coll.f(now)
		}
		_ = e.c.Close()
		e.mu.Lock()
		if serr != nil || len(evs) != 1 || evs[0] != nil || !gotMsg[0] || fallback != 0 {
			d := fmt.Sprintf("x response-during-a-first-write-that-succeeds #%d: Start returned %v, handler events %v, fallback handler called %d times", i, serr, evs, fallback)
			o.failFor("C12", "response-missed-its-transaction", d)
			o.failFor("C10", "handler-not-invoked-exactly-once", d)
		}
		e.mu.Unlock()
		o.count("response-during-a-first-write-that-succeeds")
	}
	// (4f) Do: while its callback is still running, the next datagram is already waiting behind the response;
	// the callback sees its response until it returns
	for i := 0; i < 10; i++ {
		e := mk(false)
		if e == nil {
			continue
		}
		idA := 8000 + i
		tidA := clientTID(idA)
		raw := stunMsg(r, 1, 20)
		copy(raw[8:20], tidA[:])
		resp := response(r, idA, 8)
		next := response(r, 8100+i, 40)
		if i%2 == 1 {
			next = append(header(0x0011, 12, r.bytes(12)), r.tlv(0x8030, r.bytes(8), 8)...)
		}
		bad := ""
		doDone := make(chan error, 1)
		go func() {
			doDone <- e.c.Do(&stun.Message{TransactionID: tidA, Raw: raw}, func(ev stun.Event) {
				if ev.Error != nil || ev.Message == nil {
					bad = fmt.Sprintf("event %v", ev.Error)
					return
				}
				go func() {
					select {
					case e.conn.rd <- next:
					case <-time.After(time.Second):
					}
				}()
				for k := 0; k < 20 && bad == ""; k++ {
					time.Sleep(time.Millisecond)
					if !bytes.Equal(ev.Message.Raw, resp) || ev.Message.TransactionID != tidA || ev.TransactionID != tidA {
						bad = fmt.Sprintf("after %d ms the callback's message is %s (TransactionID %x), the response was %s", k+1, fHex(ev.Message.Raw), ev.Message.TransactionID, fHex(resp))
					}
				}
			})
		}()
		time.Sleep(2 * time.Millisecond)
		select {
		case e.conn.rd <- resp:
		case <-time.After(2 * time.Second):
		}
		var derr error
		select {
		case derr = <-doDone:
		case <-time.After(3 * time.Second):
			bad = "Do did not return"
		}
		if bad != "" || derr != nil {
			d := fmt.Sprintf("x datagram-right-behind-the-response-of-Do #%d: %s (Do returned %v)", i, bad, derr)
			o.failFor("C12", "callback-sees-another-datagram", d)
			o.failFor("C10", "handler-not-invoked-exactly-once", d)
		}
		time.Sleep(2 * time.Millisecond)
		_ = e.c.Close()
		o.count("datagram-right-behind-the-response-of-Do")
	}
	// (4g) a connection that reports short writes without an error (n < len): every Write the client makes is
	// still the whole request, and there are at most 1 + 7 of them
	for i := 0; i < 6; i++ {
		e := mk(false)
		if e == nil {
			continue
		}
		e.conn.mu.Lock()
		e.conn.short = true
		e.conn.mu.Unlock()
		idA := 8200 + i
		tidA := clientTID(idA)
		raw := stunMsg(r, 1, 20+8*i)
		copy(raw[8:20], tidA[:])
		want := append([]byte(nil), raw...)
		_ = startTID2(e.c, tidA, raw)
		now := agentBase
		for k := 1; k <= 3+2*i; k++ {
			now = now.Add(time.Duration(100*k + 1))
			e.clock.set(now)
			e.coll.f(now)
		}
		_ = e.c.Close()
		e.conn.mu.Lock()
		log := e.conn.log
		e.conn.mu.Unlock()
		odd := ""
		for k, w := range log {
			if !bytes.Equal(w, want) {
				odd = fmt.Sprintf("write #%d is %s", k+1, fHex(w))
				break
			}
		}
		if len(log) > 8 {
			odd = fmt.Sprintf("%d writes", len(log))
		}
		if odd != "" {
			d := fmt.Sprintf("x short-writing-connection #%d request %s: %s", i, fHex(want), odd)
			o.failFor("C11", "retransmission-differs-from-request", d)
		}
		o.count("short-writing-connection")
	}
	// (4d) the response and the final timeout of one transaction released at the same instant (reader and
	// collector goroutines): the handler runs once, and afterwards 640 fresh transactions each get their own event
	{
		e := mk(true, stun.WithNoRetransmit)
		if e != nil {
			for round := 0; round < 3000; round++ {
				id := 10000 + round
				_ = startTID(e, id, clientTID(id), 20)
				e.gate.pairID.Store(int64(id))
				e.gate.pairArrived.Store(0)
				e.gate.pairOn.Store(true)
				now := agentBase.Add(time.Duration(200 * (round + 1)))
				start := make(chan struct{})
				var wg sync.WaitGroup
				wg.Add(2)
				go func() { defer wg.Done(); <-start; e.conn.rd <- response(r, id, 0) }()
				go func() { defer wg.Done(); <-start; e.clock.set(now); e.coll.f(now) }()
				close(start)
				wg.Wait()
				idle(e)
				if n := count(e, id); n != 1 {
					d := fmt.Sprintf("x response-racing-timeout round %d: invoked=%d", round, n)
					o.failFor("C10", "handler-not-invoked-exactly-once", d)
					o.failFor("C12", "handler-not-invoked-exactly-once", d)
					break
				}
			}
			for k := 0; k < 640; k++ {
				_ = startTID(e, 20000+k, clientTID(20000+k), 20)
			}
			_ = e.c.Close()
			e.mu.Lock()
			for k := 0; k < 640; k++ {
				if got := e.invoked[20000+k]; len(got) != 1 || got[0] != 20000+k {
					d := fmt.Sprintf("x after 3000 rounds of a response racing the final timeout, a transaction's handler saw events for %v (its ID is %d)", got, 20000+k)
					o.failFor("C10", "handler-not-invoked-exactly-once", d)
					o.failFor("C12", "event-delivered-to-another-transaction", d)
					break
				}
			}
			e.mu.Unlock()
			o.count("response-racing-timeout")
		}
	}
	// (5) the library's own ticker collector with a custom clock: deadlines are judged by that clock
	for i := 0; i < 6; i++ {
		clock := &vclock{now: agentBase}
		conn := &raceConn{rd: make(chan []byte), closedCh: make(chan struct{}), writes: map[[12]byte]int{},
			held: make(chan struct{}, 1), release: make(chan struct{}), idle: make(chan struct{}, 1)}
		c, err := stun.NewClient(conn, stun.WithClock(clock), stun.WithRTO(100*time.Millisecond), stun.WithTimeoutRate(5*time.Millisecond))
		if err != nil {
			continue
		}
		tid := clientTID(100 + i)
		raw := stunMsg(r, 100+i, 20)
		_ = c.Start(&stun.Message{TransactionID: tid, Raw: raw}, func(stun.Event) {})
		writes := func() int {
			conn.mu.Lock()
			defer conn.mu.Unlock()
			return conn.writes[tid]
		}
		time.Sleep(30 * time.Millisecond)
		w0 := writes()
		clock.set(agentBase.Add(98 * time.Millisecond)) // 2 ms before the first deadline
		time.Sleep(30 * time.Millisecond)
		w1 := writes()
		clock.set(agentBase.Add(101 * time.Millisecond))
		w2 := w1
		for k := 0; k < 100 && w2 < 2; k++ {
			time.Sleep(2 * time.Millisecond)
			w2 = writes()
		}
		if w0 != 1 || w1 != 1 {
			o.failFor("C11", "retransmitted-before-deadline", fmt.Sprintf("x default-collector custom-clock #%d writes before the deadline: %d, %d", i, w0, w1))
			o.failFor("C10", "retransmitted-before-deadline", fmt.Sprintf("x default-collector custom-clock #%d writes before the deadline: %d, %d", i, w0, w1))
		}
		if w2 < 2 {
			o.failFor("C11", "no-retransmission-after-deadline", fmt.Sprintf("x default-collector custom-clock #%d writes=%d", i, w2))
			o.failFor("C10", "no-retransmission-after-deadline", fmt.Sprintf("x default-collector custom-clock #%d writes=%d", i, w2))
		}
		_ = c.Close()
		o.count("default-collector-custom-clock")
	}
	// (6) many transactions in flight when the client is closed: each handler runs exactly once by the time
	// Close has returned, and none afterwards
	inflight := []int{1, 50, 99, 100, 101, 130, 257, 1000}
	for _, n := range litIntsIn(8, 3000, 6) {
		inflight = append(inflight, n-1, n+1)
	}
	for i, k := range inflight {
		e := mk(false)
		if e == nil {
			continue
		}
		for j := 0; j < k; j++ {
			_ = startTID(e, 5000+j, clientTID(5000+j), 20)
		}
		_ = e.c.Close()
		missing, twice := 0, 0
		for j := 0; j < k; j++ {
			switch n := count(e, 5000+j); {
			case n == 0:
				missing++
			case n > 1:
				twice++
			}
		}
		if missing > 0 || twice > 0 {
			d := fmt.Sprintf("x close-with-%d-in-flight #%d not-invoked=%d invoked-more-than-once=%d", k, i, missing, twice)
			o.failFor("C10", "transaction-not-completed-by-close", d)
			o.failFor("C12", "transaction-not-completed-by-close", d)
		}
		time.Sleep(2 * time.Millisecond)
		late := 0
		for j := 0; j < k; j++ {
			if count(e, 5000+j) > 1 {
				late++
			}
		}
		if late > twice {
			o.failFor("C15", "handler-after-close", fmt.Sprintf("x close-with-%d-in-flight #%d", k, i))
		}
		o.count("close-with-many-in-flight")
	}
	// (7) the application stops an in-flight transaction through the agent it shares with the client
	// (WithAgent): whatever the client makes of the "stopped" event, the handler has run exactly once by the
	// time Close has returned
	for i := 0; i < 12; i++ {
		var opts []stun.ClientOption
		if i%2 == 1 {
			opts = append(opts, stun.WithNoRetransmit)
		}
		e := mk(true, opts...)
		if e == nil {
			continue
		}
		ids := []int{7000 + i, 7100 + i, 7200 + i}
		for _, id := range ids {
			_ = startTID(e, id, clientTID(id), 20)
		}
		_ = e.gate.Agent.Stop(clientTID(ids[i%3]))
		if i%4 >= 2 {
			_ = e.gate.Agent.StopWithError(clientTID(ids[(i+1)%3]), errors.New("application says no"))
		}
		idle(e)
		_ = e.c.Close()
		for _, id := range ids {
			if n := count(e, id); n != 1 {
				d := fmt.Sprintf("x application-stops-transaction-through-shared-agent #%d no-retransmit=%v id=%d invoked=%d", i, i%2 == 1, id, n)
				o.failFor("C10", "handler-not-invoked-exactly-once", d)
				o.failFor("C12", "handler-not-invoked-exactly-once", d)
			}
		}
		o.count("application-stops-through-shared-agent")
	}
	// (8) a Start that has passed the client's own checks and is about to register with the agent, while
	// Close is delivering the "closed" event of another transaction (whose handler takes its time): either
	// that Start fails, or its handler runs exactly once
	for i := 0; i < 12; i++ {
		pa := &pauseStartAgent{Agent: stun.NewAgent(nil), paused: make(chan struct{}, 1), release: make(chan struct{})}
		e := mk(false, stun.WithAgent(pa))
		if e == nil {
			continue
		}
		idA, idB := 7300+i, 7400+i
		var once sync.Once
		rawA := stunMsg(r, 1, 20)
		tidA := clientTID(idA)
		copy(rawA[8:20], tidA[:])
		_ = e.c.Start(&stun.Message{TransactionID: tidA, Raw: rawA}, func(stun.Event) {
			e.mu.Lock()
			e.invoked[idA] = append(e.invoked[idA], idA)
			e.mu.Unlock()
			once.Do(func() { close(pa.release) })
			time.Sleep(time.Duration(5+10*(i%3)) * time.Millisecond)
		})
		pa.armed.Store(true)
		errB := make(chan error, 1)
		go func() { errB <- startTID(e, idB, clientTID(idB), 20) }()
		select {
		case <-pa.paused:
		case <-time.After(2 * time.Second):
		}
		_ = e.c.Close()
		once.Do(func() { close(pa.release) })
		var eb error
		select {
		case eb = <-errB:
		case <-time.After(3 * time.Second):
			eb = errors.New("Start did not return")
			o.failFor("C10", "start-does-not-return", fmt.Sprintf("x start-overlapping-close #%d", i))
		}
		time.Sleep(20 * time.Millisecond)
		nA, nB := count(e, idA), count(e, idB)
		if nA != 1 || (eb == nil && nB != 1) || (eb != nil && nB != 0) {
			d := fmt.Sprintf("x start-overlapping-close #%d first: invoked=%d; overlapping Start returned %v and its handler was invoked %d time(s)", i, nA, eb, nB)
			o.failFor("C10", "handler-not-invoked-exactly-once", d)
			o.failFor("C15", "handler-not-invoked-exactly-once", d)
		}
		o.count("start-overlapping-close")
	}
	// (9) two ticks of the collector overlap: the first is held in the handler of its first timeout while a
	// second one, on another goroutine, times out three younger transactions
	for i := 0; i < 8; i++ {
		e := mk(false, stun.WithNoRetransmit)
		if e == nil {
			continue
		}
		hold, resume := make(chan struct{}), make(chan struct{})
		var first sync.Once
		older := []int{7500, 7501, 7502, 7503}
		for _, id := range older {
			id := id
			raw := stunMsg(r, 1, 20)
			tid := clientTID(id)
			copy(raw[8:20], tid[:])
			_ = e.c.Start(&stun.Message{TransactionID: tid, Raw: raw}, func(stun.Event) {
				e.mu.Lock()
				e.invoked[id] = append(e.invoked[id], id)
				e.mu.Unlock()
				first.Do(func() {
					close(hold)
					select {
					case <-resume:
					case <-time.After(3 * time.Second):
					}
				})
			})
		}
		t1 := agentBase.Add(101)
		e.clock.set(t1)
		tick1 := make(chan struct{})
		go func() { e.coll.f(t1); close(tick1) }()
		select {
		case <-hold:
		case <-time.After(2 * time.Second):
		}
		younger := []int{7600, 7601, 7602}
		for _, id := range younger {
			_ = startTID(e, id, clientTID(id), 20)
		}
		t2 := agentBase.Add(300)
		e.clock.set(t2)
		e.coll.f(t2)
		close(resume)
		<-tick1
		_ = e.c.Close()
		for _, id := range append(append([]int{}, older...), younger...) {
			if n := count(e, id); n != 1 {
				d := fmt.Sprintf("x overlapping-collector-ticks #%d id=%d invoked=%d", i, id, n)
				o.failFor("C10", "handler-not-invoked-exactly-once", d)
				o.failFor("C11", "handler-not-invoked-exactly-once", d)
			}
		}
		o.count("overlapping-collector-ticks")
	}
}

// setRTORaceScenario: SetRTO from one goroutine while collector ticks make the client retransmit on another
// (and Start on a third): nothing to see without the race detector; under it any unsynchronised access to the
// client's fields is reported.  Afterwards Close, and every handler has run once.
func setRTORaceScenario(o *out, r *rng, reps int) {
	for i := 0; i < reps; i++ {
		clock := &vclock{now: agentBase}
		coll := &manualCollector{}
		conn := &raceConn{rd: make(chan []byte), closedCh: make(chan struct{}), writes: map[[12]byte]int{},
			held: make(chan struct{}, 1), release: make(chan struct{}), idle: make(chan struct{}, 1)}
		c, err := stun.NewClient(conn, stun.WithClock(clock), stun.WithCollector(coll), stun.WithRTO(100))
		if err != nil {
			continue
		}
		var mu sync.Mutex
		invoked := map[int]int{}
		start := func(id int) {
			raw := stunMsg(r, 1, 20)
			tid := clientTID(id)
			copy(raw[8:20], tid[:])
			_ = c.Start(&stun.Message{TransactionID: tid, Raw: raw}, func(stun.Event) { mu.Lock(); invoked[id]++; mu.Unlock() })
		}
		for id := 8000; id < 8008; id++ {
			start(id)
		}
		var wg sync.WaitGroup
		wg.Add(3)
		go func() {
			defer wg.Done()
			for k := 0; k < 200; k++ {
				c.SetRTO(time.Duration(50 + k%100))
			}
		}()
		go func() {
			defer wg.Done()
			for k := 1; k <= 6; k++ {
				now := agentBase.Add(time.Duration(1000 * k))
				clock.set(now)
				coll.f(now)
			}
		}()
		go func() {
			defer wg.Done()
			for id := 8100; id < 8108; id++ {
				start(id)
			}
		}()
		wg.Wait()
		_ = c.Close()
		mu.Lock()
		for id, n := range invoked {
			if n != 1 {
				o.failFor("C10", "handler-not-invoked-exactly-once", fmt.Sprintf("x setrto-racing-retransmissions #%d id=%d invoked=%d", i, id, n))
			}
		}
		if len(invoked) != 16 {
			o.failFor("C10", "handler-not-invoked-exactly-once", fmt.Sprintf("x setrto-racing-retransmissions #%d handlers run for %d of 16 transactions", i, len(invoked)))
		}
		mu.Unlock()
		o.count("setrto-racing-retransmissions")
	}
}

// stallConn: a connection whose Write blocks (a peer that does not drain) until the connection is closed
type stallConn struct {
	closedCh chan struct{}
	once     sync.Once
	inWrite  chan struct{}
	stall    atomic.Bool
}

func (c *stallConn) Read(p []byte) (int, error) { <-c.closedCh; return 0, io.ErrClosedPipe }
func (c *stallConn) Write(p []byte) (int, error) {
	if !c.stall.Load() {
		return len(p), nil
	}
	select {
	case c.inWrite <- struct{}{}:
	default:
	}
	<-c.closedCh
	return 0, io.ErrClosedPipe
}
func (c *stallConn) Close() error { c.once.Do(func() { close(c.closedCh) }); return nil }

// closeLivenessScenarios: Close returns (and then everything else does) although a writer is stuck in the
// connection's Write, and although the library's own ticker collector would not tick for an hour
func closeLivenessScenarios(o *out, r *rng) {
	for i := 0; i < 18; i++ {
		conn := &stallConn{closedCh: make(chan struct{}), inWrite: make(chan struct{}, 1)}
		c, err := stun.NewClient(conn, stun.WithRTO(time.Hour))
		if err != nil {
			continue
		}
		conn.stall.Store(true)
		callDone := make(chan error, 1)
		invoked := make(chan struct{}, 4)
		go func() {
			m := &stun.Message{TransactionID: clientTID(9000 + i), Raw: stunMsg(r, 9000+i, 20)}
			switch i % 3 {
			case 0:
				callDone <- c.Indicate(m)
			case 1:
				callDone <- c.Start(m, nil)
			default:
				callDone <- c.Start(m, func(stun.Event) { invoked <- struct{}{} })
			}
		}()
		select {
		case <-conn.inWrite:
		case <-time.After(2 * time.Second):
		}
		closeDone := make(chan error, 1)
		go func() { closeDone <- c.Close() }()
		what := []string{"Indicate", "Start without a handler", "Start"}[i%3]
		select {
		case <-closeDone:
		case <-time.After(3 * time.Second):
			o.failFor("C15", "close-did-not-return", fmt.Sprintf("x Close while %s is blocked in the connection's Write (#%d): not back after 3 s", what, i))
			conn.Close()
		}
		select {
		case <-callDone:
		case <-time.After(3 * time.Second):
			o.failFor("C15", "call-blocked-after-close", fmt.Sprintf("x %s blocked in Write does not return after Close (#%d)", what, i))
		}
		if err := c.Indicate(&stun.Message{Raw: stunMsg(r, 1, 20)}); !errors.Is(err, stun.ErrClientClosed) {
			o.failFor("C15", "call-after-close-not-refused", fmt.Sprintf("x after Close with a stalled writer (#%d): Indicate returned %v", i, err))
		}
		o.count("close-with-stalled-writer")
	}
	for i, rate := range []time.Duration{time.Hour, 24 * time.Hour, time.Minute} {
		conn := &stallConn{closedCh: make(chan struct{}), inWrite: make(chan struct{}, 1)}
		c, err := stun.NewClient(conn, stun.WithTimeoutRate(rate), stun.WithRTO(time.Hour))
		if err != nil {
			continue
		}
		invoked := make(chan stun.Event, 4)
		_ = c.Start(&stun.Message{TransactionID: clientTID(9100 + i), Raw: stunMsg(r, 9100+i, 20)}, func(e stun.Event) { invoked <- e })
		before := runtime.NumGoroutine()
		closeDone := make(chan error, 1)
		go func() { closeDone <- c.Close() }()
		select {
		case <-closeDone:
			select {
			case <-invoked:
			default:
				o.failFor("C10", "transaction-not-completed-by-close", fmt.Sprintf("x default collector ticking every %v (#%d)", rate, i))
			}
			for k := 0; k < 100 && runtime.NumGoroutine() >= before; k++ {
				time.Sleep(time.Millisecond)
			}
			if runtime.NumGoroutine() >= before {
				o.failFor("C15", "goroutine-leak", fmt.Sprintf("x default collector ticking every %v (#%d): %d goroutines before Close, %d after", rate, i, before, runtime.NumGoroutine()))
			}
		case <-time.After(3 * time.Second):
			o.failFor("C15", "close-did-not-return", fmt.Sprintf("x default collector ticking every %v (#%d): Close not back after 3 s", rate, i))
		}
		o.count("close-with-slow-ticker")
	}
}

// timingScenarios (C11): (a) a collector tick whose time lags the clock: the retransmission is written at the
// clock's time and the next deadline counts from there; (b) the retransmission of one request is stalled in
// Write while a tick on another goroutine retransmits another request: the stalled Write's bytes stay what they
// were; (c) a client over a real TCP connection (loopback, skipped when there is none) retransmits like any other
func timingScenarios(o *out, r *rng) {
	for i := 0; i < 6; i++ {
		clock := &vclock{now: agentBase}
		coll := &manualCollector{}
		conn := &raceConn{rd: make(chan []byte), closedCh: make(chan struct{}), writes: map[[12]byte]int{},
			held: make(chan struct{}, 1), release: make(chan struct{}), idle: make(chan struct{}, 1)}
		c, err := stun.NewClient(conn, stun.WithClock(clock), stun.WithCollector(coll), stun.WithRTO(100))
		if err != nil {
			continue
		}
		tid := clientTID(9300 + i)
		raw := stunMsg(r, 9300+i, 20)
		_ = c.Start(&stun.Message{TransactionID: tid, Raw: raw}, func(stun.Event) {})
		writes := func() int { conn.mu.Lock(); defer conn.mu.Unlock(); return conn.writes[tid] }
		lag := 20 + 10*i
		clock.set(agentBase.Add(time.Duration(101 + lag)))
		coll.f(agentBase.Add(101)) // the tick's time lags the clock: retransmission #1 is written at 101+lag
		w1 := writes()
		clock.set(agentBase.Add(time.Duration(101 + lag + 199)))
		coll.f(agentBase.Add(time.Duration(101 + lag + 199))) // 199 after that write: 2*RTO have not passed
		w2 := writes()
		clock.set(agentBase.Add(time.Duration(101 + lag + 201)))
		coll.f(agentBase.Add(time.Duration(101 + lag + 201)))
		w3 := writes()
		if w1 != 2 || w2 != 2 || w3 != 3 {
			o.failFor("C11", "retransmitted-before-deadline", fmt.Sprintf("x tick time lagging the clock by %d: writes after the lagging tick / 199 later / 201 later = %d / %d / %d (want 2 / 2 / 3)", lag, w1, w2, w3))
		}
		_ = c.Close()
		o.count("lagging-tick")
	}
	for i := 0; i < 6; i++ {
		clock := &vclock{now: agentBase}
		coll := &manualCollector{}
		conn := &raceConn{rd: make(chan []byte), closedCh: make(chan struct{}), writes: map[[12]byte]int{},
			held: make(chan struct{}, 1), release: make(chan struct{}), idle: make(chan struct{}, 1)}
		c, err := stun.NewClient(conn, stun.WithClock(clock), stun.WithCollector(coll), stun.WithRTO(100))
		if err != nil {
			continue
		}
		sizeA, sizeB := []int{600, 1500, 2040, 3000}[i%4], []int{700, 1500, 2044, 3000}[(i+1)%4]
		tidA, tidB := clientTID(9400+i), clientTID(9450+i)
		conn.mu.Lock()
		conn.holdTID, conn.holdOn = tidA, true
		conn.mu.Unlock()
		_ = c.Start(&stun.Message{TransactionID: tidA, Raw: stunMsg(r, 9400+i, sizeA)}, func(stun.Event) {})
		clock.set(agentBase.Add(50))
		_ = c.Start(&stun.Message{TransactionID: tidB, Raw: stunMsg(r, 9450+i, sizeB)}, func(stun.Event) {})
		t1 := agentBase.Add(101)
		clock.set(t1)
		tick1 := make(chan struct{})
		go func() { coll.f(t1); close(tick1) }() // A's retransmission: held inside Write
		select {
		case <-conn.held:
		case <-time.After(2 * time.Second):
		}
		t2 := agentBase.Add(151)
		clock.set(t2)
		coll.f(t2) // B's retransmission, on this goroutine, while A's Write is in progress
		close(conn.release)
		<-tick1
		conn.mu.Lock()
		mut := conn.mutated
		conn.mu.Unlock()
		if mut {
			o.failFor("C11", "retransmission-buffer-changed-during-write", fmt.Sprintf("x #%d a %d-byte request's retransmission stalled in Write while a %d-byte request was retransmitted on another goroutine", i, sizeA, sizeB))
		}
		_ = c.Close()
		o.count("concurrent-retransmissions")
	}
	// (c) a real *net.TCPConn
	ln, err := net.Listen("tcp", "127.0.0.1:0")
	if err != nil {
		o.count("tcp-loopback-unavailable")
		return
	}
	defer ln.Close()
	got := make(chan int, 1)
	go func() {
		sc, err := ln.Accept()
		if err != nil {
			got <- -1
			return
		}
		defer sc.Close()
		total := 0
		buf := make([]byte, 4096)
		_ = sc.SetReadDeadline(time.Now().Add(3 * time.Second))
		for {
			n, err := sc.Read(buf)
			total += n
			if err != nil {
				break
			}
		}
		got <- total
	}()
	tc, err := net.Dial("tcp", ln.Addr().String())
	if err != nil {
		o.count("tcp-loopback-unavailable")
		return
	}
	clock := &vclock{now: agentBase}
	coll := &manualCollector{}
	c, err := stun.NewClient(tc, stun.WithClock(clock), stun.WithCollector(coll), stun.WithRTO(100))
	if err != nil {
		return
	}
	raw := stunMsg(r, 9500, 20)
	done := make(chan stun.Event, 1)
	_ = c.Start(&stun.Message{TransactionID: clientTID(9500), Raw: raw}, func(e stun.Event) { done <- e })
	now := agentBase
	for k := 1; k <= 3; k++ {
		now = now.Add(time.Duration(100*k + 1))
		clock.set(now)
		coll.f(now)
	}
	select {
	case e := <-done:
		o.failFor("C11", "timeout-before-last-deadline", fmt.Sprintf("x over a real TCP connection the transaction ended after 3 of 8 deadlines: %v", e.Error))
	default:
	}
	_ = c.Close()
	if total := <-got; total != 4*len(raw) {
		o.failFor("C11", "retransmission-count-over-tcp", fmt.Sprintf("x over a real TCP connection: %d bytes reached the peer after the first transmission and three deadlines, want %d", total, 4*len(raw)))
	}
	o.count("real-tcp-connection")
}

// more connection shapes for Close (C15): a peer that keeps sending things that are not STUN, under WithNoConnClose;
// a connection whose SetReadDeadline exists and does nothing
type chattyConn struct {
	closed atomic.Bool
	reads  atomic.Int64
}

func (c *chattyConn) Read(p []byte) (int, error) {
	c.reads.Add(1)
	time.Sleep(50 * time.Microsecond)
	return copy(p, []byte{0x17, 0x03, 0x03, 0x00}), nil // never an error, never a STUN message
}
func (c *chattyConn) Write(p []byte) (int, error) { return len(p), nil }
func (c *chattyConn) Close() error                { c.closed.Store(true); return nil }

type deafDeadlineConn struct {
	stallConn
}

func (c *deafDeadlineConn) SetReadDeadline(time.Time) error { return nil } // as many wrappers do
func (c *deafDeadlineConn) SetDeadline(time.Time) error     { return nil }

func moreCloseShapes(o *out, r *rng) {
	for i := 0; i < 3; i++ {
		conn := &chattyConn{}
		c, err := stun.NewClient(conn, stun.WithNoConnClose(), stun.WithRTO(time.Hour))
		if err != nil {
			continue
		}
		_ = c.Start(&stun.Message{TransactionID: clientTID(9600 + i), Raw: stunMsg(r, 9600+i, 20)}, func(stun.Event) {})
		time.Sleep(2 * time.Millisecond)
		closeDone := make(chan error, 1)
		go func() { closeDone <- c.Close() }()
		select {
		case <-closeDone:
			n1 := conn.reads.Load()
			time.Sleep(5 * time.Millisecond)
			if conn.reads.Load() > n1+1 {
				o.failFor("C15", "reader-alive-after-close", fmt.Sprintf("x WithNoConnClose over a peer that keeps sending non-STUN data: the reader still reads after Close returned (#%d)", i))
			}
		case <-time.After(3 * time.Second):
			o.failFor("C15", "close-did-not-return", fmt.Sprintf("x WithNoConnClose over a peer that keeps sending non-STUN data (#%d): Close not back after 3 s", i))
		}
		o.count("close-with-chatty-peer")
	}
	for i := 0; i < 3; i++ {
		conn := &deafDeadlineConn{stallConn{closedCh: make(chan struct{}), inWrite: make(chan struct{}, 1)}}
		c, err := stun.NewClient(conn, stun.WithRTO(time.Hour))
		if err != nil {
			continue
		}
		time.Sleep(time.Millisecond)
		closeDone := make(chan error, 1)
		go func() { closeDone <- c.Close() }()
		select {
		case <-closeDone:
		case <-time.After(3 * time.Second):
			o.failFor("C15", "close-did-not-return", fmt.Sprintf("x a connection whose SetReadDeadline does nothing, reader idle in Read (#%d): Close not back after 3 s", i))
			_ = conn.Close()
		}
		o.count("close-with-deaf-deadline")
	}
	// after all that (stalled writers included): the pooled transaction objects are still one per transaction
	{
		conn := &stallConn{closedCh: make(chan struct{}), inWrite: make(chan struct{}, 1)}
		c, err := stun.NewClient(conn, stun.WithRTO(time.Hour))
		if err == nil {
			var mu sync.Mutex
			seen := map[int][]int{}
			// started from many goroutines (a pooled object that was put back twice sits in the pool of whichever P
			// did it: some of these goroutines run there)
			raws := make([][]byte, 640)
			for k := range raws {
				raws[k] = stunMsg(r, 9700+k, 20)
			}
			var swg sync.WaitGroup
			for g := 0; g < 64; g++ {
				swg.Add(1)
				go func(g int) {
					defer swg.Done()
					for j := 0; j < 10; j++ {
						k := g*10 + j
						_ = c.Start(&stun.Message{TransactionID: clientTID(9700 + k), Raw: raws[k]}, func(e stun.Event) {
							mu.Lock()
							seen[k] = append(seen[k], agentIDOf(e.TransactionID))
							mu.Unlock()
						})
						runtime.Gosched()
					}
				}(g)
			}
			swg.Wait()
			_ = c.Close()
			mu.Lock()
			for k := 0; k < 640; k++ {
				if len(seen[k]) != 1 || seen[k][0] != 9700+k {
					o.failFor("C15", "handler-not-invoked-exactly-once", fmt.Sprintf("x after Close calls that overlapped stalled writers, a fresh client with 640 transactions started from 64 goroutines: handler %d saw events for %v", k, seen[k]))
					o.failFor("C10", "handler-not-invoked-exactly-once", fmt.Sprintf("x after Close calls that overlapped stalled writers, a fresh client with 640 transactions started from 64 goroutines: handler %d saw events for %v", k, seen[k]))
					break
				}
			}
			mu.Unlock()
		}
		o.count("pool-sanity-after-stalls")
	}
}

// pauseStartAgent: the stock Agent behind the ClientAgent interface; when armed, the next Start is held
// before it reaches the agent until the harness releases it
type pauseStartAgent struct {
	*stun.Agent
	armed   atomic.Bool
	paused  chan struct{}
	release chan struct{}
}

func (p *pauseStartAgent) Start(id [stun.TransactionIDSize]byte, deadline time.Time) error {
	if p.armed.CompareAndSwap(true, false) {
		p.paused <- struct{}{}
		select {
		case <-p.release:
		case <-time.After(3 * time.Second):
		}
	}
	return p.Agent.Start(id, deadline)
}
