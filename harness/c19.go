package main

import "github.com/pion/stun/v3"

// C19: the complete domain. 4096 methods x 4 classes through Value(), all 65536 wire values
// through ReadValue(), in slices of 256 methods / 1024 values, plus out-of-domain methods and
// class bytes (sampled) to pin the masking.
func init() {
	props["C19"] = runC19
	cmds[1901] = func(_ *out, f [][]int) []int {
		return []int{int(stun.MessageType{Method: stun.Method(f[0][0]), Class: stun.MessageClass(f[0][1])}.Value())}
	}
	cmds[1902] = func(_ *out, f [][]int) []int {
		var t stun.MessageType
		t.ReadValue(uint16(f[0][0]))
		return []int{int(t.Method), int(t.Class)}
	}
	cmds[1903] = func(_ *out, f [][]int) []int {
		var obs []int
		for m := f[0][0]; m < f[0][0]+f[0][1]; m++ {
			for c := 0; c < 4; c++ {
				obs = append(obs, int(stun.MessageType{Method: stun.Method(m), Class: stun.MessageClass(c)}.Value()))
			}
		}
		return obs
	}
	cmds[1904] = func(_ *out, f [][]int) []int {
		var obs []int
		for v := f[0][0]; v < f[0][0]+f[0][1]; v++ {
			var t stun.MessageType
			t.ReadValue(uint16(v))
			obs = append(obs, int(t.Method), int(t.Class))
		}
		return obs
	}
}

func runC19(o *out, thorough bool, r *rng, _ []string) map[string]interface{} {
	for m0 := 0; m0 < 4096; m0 += 256 {
		o.run(1903, []string{fNums(m0, 256)}, true)
		o.countN("value_pairs", 1024)
	}
	for v0 := 0; v0 < 65536; v0 += 1024 {
		o.run(1904, []string{fNums(v0, 1024)}, true)
		o.countN("read_values", 1024)
	}
	// out-of-domain: methods >= 4096, class bytes >= 4
	n := 2000
	if thorough {
		n = 40000
	}
	for i := 0; i < n; i++ {
		m := r.intn(65536)
		c := r.intn(256)
		o.run(1901, []string{fNums(m, c)}, m >= 4096 || c >= 4)
		o.count("out_of_domain_samples")
	}
	// round trip in the implementation itself (oracle B, computed in Go): exhaustive
	for m := 0; m < 4096; m++ {
		for c := 0; c < 4; c++ {
			t := stun.MessageType{Method: stun.Method(m), Class: stun.MessageClass(c)}
			var back stun.MessageType
			back.ReadValue(t.Value())
			if back != t || t.Value() >= 1<<14 {
				o.fail("roundtrip", "1901 "+fNums(m, c))
			}
		}
	}
	return map[string]interface{}{"exhaustive": true}
}
