package main

import (
	"sync/atomic"
	"bytes"
	"fmt"
	"os"
	"os/exec"
	"path/filepath"
	"runtime"
	"strings"
	"sync"

	"github.com/pion/stun/v3"
)

// C19: the complete domain. 4096 methods x 4 classes through Value(), all 65536 wire values
// through ReadValue(), in slices of 256 methods / 1024 values, plus out-of-domain methods and
// class bytes (sampled) to pin the masking.
func init() {
	props["C19"] = runC19
	props["C19cold"] = runC19Cold
	cmds[1901] = func(_ *out, f [][]int) []int {
		return []int{int(stun.MessageType{Method: stun.Method(f[0][0]), Class: stun.MessageClass(f[0][1])}.Value())}
	}
	cmds[1902] = func(_ *out, f [][]int) []int {
		var t stun.MessageType
		t.ReadValue(uint16(f[0][0]))
		return []int{int(t.Method), int(t.Class)}
	}
	cmds[1903] = func(_ *out, f [][]int) []int {
		var obs []int
		for m := f[0][0]; m < f[0][0]+f[0][1]; m++ {
			for c := 0; c < 4; c++ {
				obs = append(obs, int(stun.MessageType{Method: stun.Method(m), Class: stun.MessageClass(c)}.Value()))
			}
		}
		return obs
	}
	cmds[1904] = func(_ *out, f [][]int) []int {
		var obs []int
		for v := f[0][0]; v < f[0][0]+f[0][1]; v++ {
			var t stun.MessageType
			t.ReadValue(uint16(v))
			obs = append(obs, int(t.Method), int(t.Class))
		}
		return obs
	}
}

// runC19Cold: in a process that has not touched the type codec yet, the first thing done is the operation
// named by the argument; then both tables are printed as digests
func runC19Cold(_ *out, _ bool, _ *rng, args []string) map[string]interface{} {
	switch args[0] {
	case "read-first":
		var t stun.MessageType
		t.ReadValue(0x0111)
	case "decode-first":
		_ = stun.Decode(header(0x0113, 0, tid0), new(stun.Message))
	case "value-first":
		_ = stun.MessageType{Method: 0x123, Class: 2}.Value()
	case "concurrent-read-first":
		var wg sync.WaitGroup
		start := make(chan struct{})
		var wrong atomic.Int64
		for w := 0; w < 4*runtime.GOMAXPROCS(0); w++ {
			wg.Add(1)
			go func(w int) {
				defer wg.Done()
				<-start
				// the very first decodes of this process, from all goroutines at the same instant, checked on the spot
				for v := 1 + w; v < 65536; v += 257 {
					var t stun.MessageType
					t.ReadValue(uint16(v))
					if int(t.Method) != v&0xf|(v>>1)&0x70|(v>>2)&0xf80 || int(t.Class) != (v>>4)&1|(v>>7)&2 {
						wrong.Add(1)
					}
				}
				for v := 0; v < 65536; v += 17 {
					var t stun.MessageType
					t.ReadValue(uint16(v + w))
				}
			}(w)
		}
		close(start)
		wg.Wait()
		if n := wrong.Load(); n > 0 {
			fmt.Println("wrong first decodes:", n)
		}
	}
	fmt.Println("tables", c19Digest())
	os.Exit(0)
	return nil
}

// c19Digest: FNV-1a over ReadValue of all 65536 wire values and Value of all 16384 pairs
func c19Digest() uint64 {
	h := uint64(14695981039346656037)
	mix := func(x int) {
		for k := 0; k < 2; k++ {
			h ^= uint64(byte(x >> (8 * k)))
			h *= 1099511628211
		}
	}
	for v := 0; v < 65536; v++ {
		var t stun.MessageType
		t.ReadValue(uint16(v))
		mix(int(t.Method))
		mix(int(t.Class))
	}
	for k := 0; k < 16384; k++ {
		mix(int(stun.MessageType{Method: stun.Method(k / 4), Class: stun.MessageClass(k % 4)}.Value()))
	}
	return h
}

func runC19(o *out, thorough bool, r *rng, _ []string) map[string]interface{} {
	for m0 := 0; m0 < 4096; m0 += 256 {
		o.run(1903, []string{fNums(m0, 256)}, true)
		o.countN("value_pairs", 1024)
	}
	for v0 := 0; v0 < 65536; v0 += 1024 {
		o.run(1904, []string{fNums(v0, 1024)}, true)
		o.countN("read_values", 1024)
	}
	// out-of-domain: methods >= 4096, class bytes >= 4
	n := 2000
	if thorough {
		n = 40000
	}
	for i := 0; i < n; i++ {
		m := r.intn(65536)
		c := r.intn(256)
		o.run(1901, []string{fNums(m, c)}, m >= 4096 || c >= 4)
		o.count("out_of_domain_samples")
	}
	// round trip in the implementation itself (oracle B, computed in Go): exhaustive
	for m := 0; m < 4096; m++ {
		for c := 0; c < 4; c++ {
			t := stun.MessageType{Method: stun.Method(m), Class: stun.MessageClass(c)}
			var back stun.MessageType
			back.ReadValue(t.Value())
			if back != t || t.Value() >= 1<<14 {
				o.fail("roundtrip", "1901 "+fNums(m, c))
			}
		}
	}
	// the functions are pure: the whole domain once more in other call orders (strides that keep the low bits of
	// the method fixed, coprime strides, backwards, random), against the table of the first pass
	var table [4096 * 4]uint16
	for m := 0; m < 4096; m++ {
		for c := 0; c < 4; c++ {
			table[m*4+c] = stun.MessageType{Method: stun.Method(m), Class: stun.MessageClass(c)}.Value()
		}
	}
	prev := -1
	visit := func(k int) {
		k = ((k % 16384) + 16384) % 16384
		m, c := k/4, k%4
		t := stun.MessageType{Method: stun.Method(m), Class: stun.MessageClass(c)}
		v := t.Value()
		var back stun.MessageType
		back.ReadValue(v)
		if v != table[k] || back != t {
			o.fail("value-depends-on-call-order", "1901 "+fNums(m, c)+fmt.Sprintf(" (called right after method %d class %d: got %#x, alone %#x)", prev/4, prev%4, v, table[k]))
		}
		prev = k
	}
	for _, stride := range []int{4 * 256, 4 * 16, 4*256 + 1, 4*1024 + 2, 7, 4097, -1, -4 * 256} {
		k := 0
		for i := 0; i < 16384; i++ {
			visit(k)
			k += stride
			if stride%2 == 0 && (i+1)%(16384/gcd(16384, abs(stride))) == 0 {
				k++ // an even stride does not generate the whole domain: move to the next coset
			}
		}
		o.countN("reordered_value_calls", 16384)
	}
	for i := 0; i < 60000; i++ {
		k := r.intn(16384)
		visit(k)
		if r.chance(1, 2) { // a related type next: same low byte of the method, same class, other high bits
			visit(k ^ (r.intn(16) << 10))
		}
	}
	o.countN("reordered_value_calls", 90000)
	// fresh processes whose FIRST use of the type codec is a ReadValue, a Decode, a Value, or ReadValue from many
	// goroutines at once: the tables they then compute are the ones computed here
	want := fmt.Sprint("tables ", c19Digest())
	for _, first := range []string{"read-first", "decode-first", "value-first", "concurrent-read-first", "concurrent-read-first", "concurrent-read-first",
		"concurrent-read-first", "concurrent-read-first", "concurrent-read-first"} {
		outp, err := exec.Command(os.Args[0], "C19cold", "quick", "0", filepath.Join(o.dir, "c19cold"), first).CombinedOutput()
		if got := strings.TrimSpace(string(outp)); err != nil || got != want {
			if len(got) > 300 {
				got = got[:300]
			}
			o.fail("depends-on-first-use", fmt.Sprintf("x a fresh process whose first use of the type codec is %s computes other tables than this one (%v): %s", first, err, got))
		}
		o.count("cold-process-runs")
	}
	// the type field on the wire is Value() whatever else the header holds: messages whose Length field has grown
	// beyond 16 bits (Add has no limit), every class, methods with each single bit set and clear
	{
		big := new(stun.Message)
		big.WriteHeader()
		big.Add(0x0013, make([]byte, 40000))
		big.Add(0x0013, make([]byte, 40000))
		big.Add(0x0013, make([]byte, 70000))
		for k := 0; k < 16384; k += 7 {
			big.Type = stun.MessageType{Method: stun.Method(k / 4), Class: stun.MessageClass(k % 4)}
			big.WriteHeader()
			if got := uint16(big.Raw[0])<<8 | uint16(big.Raw[1]); got != table[k] {
				o.fail("header-type-depends-on-length", "1901 "+fNums(k/4, k%4)+fmt.Sprintf(" (WriteHeader with Length %d wrote type %#x, Value is %#x)", big.Length, got, table[k]))
				break
			}
			big.Encode()
			if got := uint16(big.Raw[0])<<8 | uint16(big.Raw[1]); got != table[k] {
				o.fail("header-type-depends-on-length", "1901 "+fNums(k/4, k%4)+fmt.Sprintf(" (Encode with Length %d wrote type %#x, Value is %#x)", big.Length, got, table[k]))
				break
			}
		}
		o.count("headers-with-huge-length")
	}
	// every 16-bit type word, as the first two bytes of a header-only message, through every entry point: the
	// Message's Type is ReadValue of that word
	for v := 0; v < 65536; v += 1 + v%3 {
		hd := header(v, 0, tid0)
		var want stun.MessageType
		want.ReadValue(uint16(v))
		for ei, entry := range []func(mm *stun.Message) error{
			func(mm *stun.Message) error { return stun.Decode(hd, mm) },
			func(mm *stun.Message) error { _, e := mm.Write(hd); return e },
			func(mm *stun.Message) error { _, e := mm.ReadFrom(bytes.NewReader(hd)); return e },
			func(mm *stun.Message) error { return mm.UnmarshalBinary(hd) },
		} {
			mm := &stun.Message{Raw: make([]byte, 0, 32)}
			if err := entry(mm); err != nil || mm.Type != want {
				o.fail("entry-point-reads-another-type", fmt.Sprintf("1902 %d (entry point %d: %v, error %v; ReadValue says %v)", v, ei, mm.Type, err, want))
				v = 65536
				break
			}
		}
	}
	o.count("type-words-through-entry-points")
	// the Type FIELD edited by the caller, so that it disagrees with the first two bytes of Raw: every writer
	// (SetType, WriteType, WriteHeader, Encode) writes the field's value, every reader (Decode, Write, CloneTo,
	// ReadFrom, UnmarshalBinary - also of the bytes the Message already holds) reads the bytes
	for i := 0; i < 16384; i += 1 + i%2 {
		w1, w2 := (i*7919+13)&0x3fff, i
		if w1 == w2 {
			continue
		}
		var t1, t2 stun.MessageType
		t1.ReadValue(uint16(w1))
		t2.ReadValue(uint16(w2))
		hd := header(w1, 0, tid0)
		withAttr := append(header(w1, 8, tid0), 0x80, 0x22, 0, 3, 'a', 'b', 'c', 0)
		for wi, writer := range []func(mm *stun.Message){
			func(mm *stun.Message) { mm.SetType(mm.Type) },
			func(mm *stun.Message) { mm.WriteType() },
			func(mm *stun.Message) { mm.WriteHeader() },
			func(mm *stun.Message) { mm.Encode() },
		} {
			for bi, data := range [][]byte{hd, withAttr} {
				mm := new(stun.Message)
				if stun.Decode(data, mm) != nil {
					continue
				}
				mm.Type = t2
				writer(mm)
				if got := int(mm.Raw[0])<<8 | int(mm.Raw[1]); got != w2 {
					o.fail("writer-leaves-another-type", fmt.Sprintf("1901 %d,%d (Message decoded with type word %#x, Type field set to this, writer %d on message %d: Raw holds %#x, Value is %#x)", t2.Method, t2.Class, w1, wi, bi, got, w2))
					i = 16384
				}
			}
		}
		for ri, reader := range []func(mm, dst *stun.Message, data []byte) error{
			func(mm, dst *stun.Message, data []byte) error { return mm.Decode() },
			func(mm, dst *stun.Message, data []byte) error { _, e := mm.Write(data); return e },
			func(mm, dst *stun.Message, data []byte) error { _, e := mm.Write(mm.Raw); return e },
			func(mm, dst *stun.Message, data []byte) error { return mm.CloneTo(dst) },
			func(mm, dst *stun.Message, data []byte) error { _, e := mm.ReadFrom(bytes.NewReader(data)); return e },
			func(mm, dst *stun.Message, data []byte) error { return mm.UnmarshalBinary(data) },
		} {
			for bi, data := range [][]byte{hd, withAttr} {
				mm, dst := new(stun.Message), new(stun.Message)
				if stun.Decode(data, mm) != nil {
					continue
				}
				mm.Type = t2
				err := reader(mm, dst, data)
				res := mm
				if ri == 3 {
					res = dst
				}
				if err != nil || res.Type != t1 || int(res.Raw[0])<<8|int(res.Raw[1]) != w1 {
					o.fail("entry-point-reads-another-type", fmt.Sprintf("1902 %d (the Type field had been set to %v before; reader %d on message %d: %v, error %v; ReadValue says %v)", w1, t2, ri, bi, res.Type, err, t1))
					i = 16384
				}
			}
		}
	}
	o.count("type-field-edited-by-the-caller")
	// a receiver that is reused (as Decode does with m.Type): ReadValue overwrites it completely
	var reused stun.MessageType
	m := new(stun.Message)
	for i := 0; i < 200000; i++ {
		v := r.intn(65536)
		if i%3 == 0 {
			v &= 0x3f7f // stays in the low method bits after a value with high ones
		}
		var fresh stun.MessageType
		fresh.ReadValue(uint16(v))
		reused.ReadValue(uint16(v))
		if reused != fresh {
			o.fail("readvalue-keeps-bits-of-the-receiver", fmt.Sprintf("1902 %d (receiver held the result of an earlier call: got method %d class %d, fresh receiver method %d class %d)", v, reused.Method, reused.Class, fresh.Method, fresh.Class))
			break
		}
		if i%50 == 0 {
			hd := header(v&0x3fff, 0, tid0)
			if err := stun.Decode(hd, m); err != nil || m.Type != fresh {
				o.fail("decode-keeps-bits-of-the-previous-type", fmt.Sprintf("1902 %d (reused Message: %v, %v)", v&0x3fff, m.Type, err))
				break
			}
		}
	}
	o.countN("reused_receiver_calls", 200000)
	// the exported convenience values are plain variables: whatever an application assigns to them, Value is a
	// function of the receiver's method and class alone
	saved := [4]stun.MessageType{stun.BindingRequest, stun.BindingSuccess, stun.BindingError, stun.MessageType{}}
	stun.BindingRequest = stun.NewType(stun.MethodAllocate, stun.ClassRequest)
	stun.BindingSuccess = stun.NewType(stun.MethodRefresh, stun.ClassIndication)
	stun.BindingError = stun.NewType(0xfff, stun.ClassSuccessResponse)
	for k := 0; k < 16384; k++ {
		if v := (stun.MessageType{Method: stun.Method(k / 4), Class: stun.MessageClass(k % 4)}).Value(); v != table[k] {
			o.fail("value-depends-on-package-variables", "1901 "+fNums(k/4, k%4)+fmt.Sprintf(" (after BindingRequest/BindingSuccess/BindingError were assigned other types: got %#x, before %#x)", v, table[k]))
			break
		}
	}
	stun.BindingRequest, stun.BindingSuccess, stun.BindingError = saved[0], saved[1], saved[2]
	// and from several goroutines at once, each on values of its own: every answer is the table's
	var rtable [65536]stun.MessageType
	for v := 0; v < 65536; v++ {
		rtable[v].ReadValue(uint16(v))
	}
	var wg sync.WaitGroup
	var mu sync.Mutex
	bad := ""
	for w := 0; w < 4*runtime.GOMAXPROCS(0); w++ {
		wg.Add(1)
		go func(w int) {
			defer wg.Done()
			v := w * 977
			for i := 0; i < 65536; i++ {
				v = (v + 2*w + 1) & 0xffff
				var t stun.MessageType
				t.ReadValue(uint16(v))
				k := (v*7 + w) & 16383
				val := stun.MessageType{Method: stun.Method(k / 4), Class: stun.MessageClass(k % 4)}.Value()
				if t != rtable[v] || val != table[k] {
					mu.Lock()
					if bad == "" {
						bad = fmt.Sprintf("1902 %d (goroutine %d: ReadValue gave method %d class %d, alone method %d class %d; Value(method %d class %d) gave %#x, alone %#x)",
							v, w, t.Method, t.Class, rtable[v].Method, rtable[v].Class, k/4, k%4, val, table[k])
					}
					mu.Unlock()
				}
			}
		}(w)
	}
	wg.Wait()
	if bad != "" {
		o.fail("concurrent-result-differs", bad)
	}
	o.countN("concurrent_calls", 2*65536*4*runtime.GOMAXPROCS(0))
	return map[string]interface{}{"exhaustive": true}
}

func gcd(a, b int) int {
	for b != 0 {
		a, b = b, a%b
	}
	return a
}

func abs(a int) int {
	if a < 0 {
		return -a
	}
	return a
}
