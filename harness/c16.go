package main

import (
	"path/filepath"
	"bufio"
	"bytes"
	"crypto/ecdsa"
	"crypto/elliptic"
	"crypto/rand"
	"crypto/tls"
	"crypto/x509"
	"crypto/x509/pkix"
	"errors"
	"fmt"
	"io"
	"math/big"
	"net"
	"net/netip"
	"os"
	"os/exec"
	"runtime/debug"
	"strings"
	"sync"
	"sync/atomic"
	"time"

	"github.com/pion/stun/v3"
	"github.com/pion/transport/v3"
)

// C16 (ParseURI terminates safely) and C17 (URI defaults, round trip, DialURI transport).

func init() {
	props["C16"] = runC16
	props["C17"] = runC17
	props["C16child"] = runC16Child
	props["C16conc"] = runC16ConcChild
	cmds[1601] = func(o *out, f [][]int) []int { return parseViaChild(o, field0(f)) }
	cmds[1701] = execURIRoundTrip
	cmds[1702] = execDialPlan
}

func field0(f [][]int) []byte {
	if len(f) == 0 {
		return nil
	}
	return bytesOf(f[0])
}

func schemeCode(s stun.SchemeType) int { return int(s) }
func protoCode(p stun.ProtoType) int   { return int(p) }

func serURI(u *stun.URI, err error) []int {
	if err != nil || u == nil {
		return []int{1}
	}
	sign, abs := 0, uint64(u.Port)
	if u.Port < 0 {
		sign, abs = 1, -uint64(u.Port)
	}
	obs := []int{0, schemeCode(u.Scheme), sign, int(abs >> 31), int(abs & (1<<31 - 1)), protoCode(u.Proto), len(u.Host)}
	return append(obs, intsOf([]byte(u.Host))...)
}

// ---- ParseURI in child processes: an unbounded recursion is a fatal error of the Go runtime ----

// runC16Child: reads hex strings from stdin, prints one result line per string.
func runC16Child(_ *out, _ bool, _ *rng, _ []string) map[string]interface{} {
	debug.SetMaxStack(2 << 20)
	sc := bufio.NewScanner(os.Stdin)
	sc.Buffer(make([]byte, 1<<20), 1<<26)
	w := bufio.NewWriter(os.Stdout)
	for sc.Scan() {
		s := parseField(sc.Text())
		u, err := stun.ParseURI(string(bytesOf(s)))
		fmt.Fprintln(w, fNums(serURI(u, err)...))
		w.Flush()
	}
	os.Exit(0)
	return nil
}

// runC16ConcChild: the strings on stdin are parsed by 8 goroutines at once, before anything else in this
// process has parsed them; then once more sequentially.  Prints "ok", or "differs <hex>" for the first string
// whose concurrent result is not the sequential one.  A crash of the process is seen by the parent.
func runC16ConcChild(_ *out, _ bool, _ *rng, _ []string) map[string]interface{} {
	debug.SetMaxStack(2 << 20)
	sc := bufio.NewScanner(os.Stdin)
	sc.Buffer(make([]byte, 1<<20), 1<<26)
	var inputs []string
	for sc.Scan() {
		inputs = append(inputs, string(bytesOf(parseField(sc.Text()))))
	}
	const workers = 8
	got := make([][]string, workers)
	var wg sync.WaitGroup
	for w := 0; w < workers; w++ {
		wg.Add(1)
		got[w] = make([]string, len(inputs))
		go func(w int) {
			defer wg.Done()
			for i, s := range inputs {
				u, err := stun.ParseURI(s)
				got[w][i] = fNums(serURI(u, err)...)
			}
		}(w)
	}
	wg.Wait()
	for i, s := range inputs {
		u, err := stun.ParseURI(s)
		want := fNums(serURI(u, err)...)
		for w := 0; w < workers; w++ {
			if got[w][i] != want {
				fmt.Println("differs " + fHex([]byte(s)))
				os.Exit(0)
			}
		}
	}
	fmt.Println("ok")
	os.Exit(0)
	return nil
}

// concurrentParse hands the inputs to one child process that parses them from 8 goroutines at once
func concurrentParse(o *out, inputs [][]byte) {
	cmd := exec.Command(os.Args[0], "C16conc", "quick", "0", filepath.Join(o.dir, "c16conc"))
	var in bytes.Buffer
	for _, s := range inputs {
		in.WriteString(fHex(s))
		in.WriteByte('\n')
	}
	cmd.Stdin = &in
	var outb, errb bytes.Buffer
	cmd.Stdout, cmd.Stderr = &outb, &errb
	done := make(chan error, 1)
	must(cmd.Start())
	go func() { done <- cmd.Wait() }()
	select {
	case <-done:
	case <-time.After(120 * time.Second):
		_ = cmd.Process.Kill()
		<-done
		o.failFor("C16", "concurrent-parse-hangs", "x "+fmt.Sprint(len(inputs))+" strings from 8 goroutines: no result in 120 s")
		return
	}
	ans := strings.TrimSpace(outb.String())
	switch {
	case ans == "ok":
	case strings.HasPrefix(ans, "differs "):
		o.failFor("C16", "concurrent-parse-differs", "1601 "+strings.TrimPrefix(ans, "differs "))
	default:
		msg := errb.String()
		if len(msg) > 300 {
			msg = msg[:300]
		}
		o.failFor("C16", "concurrent-parse-crash", "x "+fmt.Sprint(len(inputs))+" strings parsed from 8 goroutines in one process: "+strings.ReplaceAll(msg, "\n", " | "))
	}
	o.countN("concurrent-parses", 8*len(inputs))
}

// parseBatch runs ParseURI over the inputs in child processes (16 in parallel, each over a contiguous
// chunk).  The child answers one line per string and flushes, so when it dies or stops answering for 5 s
// the string it was working on is known exactly: it gets result [3] and a new child continues after it.
func parseBatch(o *out, inputs [][]byte) [][]int {
	res := make([][]int, len(inputs))
	var mu sync.Mutex
	runChunk := func(lo, hi int) {
		for lo < hi {
			if crashCount.Load() >= 40 {
				// enough evidence: every further crash or hang costs a process or the watchdog delay
				for k := lo; k < hi; k++ {
					res[k] = []int{4}
				}
				return
			}
			cmd := exec.Command(os.Args[0], "C16child", "quick", "0", filepath.Join(o.dir, "c16child"))
			var in bytes.Buffer
			for _, s := range inputs[lo:hi] {
				in.WriteString(fHex(s))
				in.WriteByte('\n')
			}
			cmd.Stdin = &in
			pipe, err := cmd.StdoutPipe()
			must(err)
			must(cmd.Start())
			lines := make(chan string, 1024)
			go func() {
				sc := bufio.NewScanner(pipe)
				sc.Buffer(make([]byte, 1<<20), 1<<26)
				for sc.Scan() {
					lines <- sc.Text()
				}
				close(lines)
			}()
			got := 0
			reason := "child died"
		loop:
			for {
				select {
				case l, ok := <-lines:
					if !ok {
						break loop
					}
					res[lo+got] = parseField(l)
					got++
				case <-time.After(5*time.Second + time.Duration(len(inputs[minInt(lo+got, hi-1)]))*time.Microsecond*50):
					reason = "no answer for 5 s"
					_ = cmd.Process.Kill()
					break loop
				}
			}
			_ = cmd.Process.Kill()
			_ = cmd.Wait()
			if lo+got >= hi {
				return
			}
			res[lo+got] = []int{3}
			crashCount.Add(1)
			mu.Lock()
			o.failFor("C16", "parseuri-crash-or-hang", "1601 "+fHex(inputs[lo+got])+" ("+reason+")")
			mu.Unlock()
			lo = lo + got + 1
		}
	}
	const workers = 16
	var wg sync.WaitGroup
	chunk := 2000
	next := 0
	var nmu sync.Mutex
	for w := 0; w < workers; w++ {
		wg.Add(1)
		go func() {
			defer wg.Done()
			for {
				nmu.Lock()
				lo := next
				next += chunk
				nmu.Unlock()
				if lo >= len(inputs) {
					return
				}
				runChunk(lo, minInt(lo+chunk, len(inputs)))
			}
		}()
	}
	wg.Wait()
	return res
}

func minInt(a, b int) int {
	if a < b {
		return a
	}
	return b
}

var crashCount atomic.Int32

func parseViaChild(o *out, s []byte) []int { return parseBatch(o, [][]byte{s})[0] }

var uriAlphabet = []byte{'a', '1', ':', '[', ']', '/', '?', '#', '%', '=', '&', '.', '-', '+', '@', ' ', 0x01, 0xC3, ';', 'Z'}
var uriPrefixes = []string{"stun:", "stuns:", "turn:", "turns:", ""}

func emitParsed(o *out, inputs [][]byte, kind string) {
	results := parseBatch(o, inputs)
	for i, s := range inputs {
		if results[i][0] == 4 {
			o.count("skipped-after-40-crashes")
			continue
		}
		o.emit(1601, []string{fHex(s)}, results[i], true)
		o.count("kind:" + kind)
		o.count(fmt.Sprintf("result:%d", results[i][0]))
	}
}

func runC16(o *out, thorough bool, r *rng, _ []string) map[string]interface{} {
	maxLen := 4
	if thorough {
		maxLen = 5
	}
	// EXHAUSTIVE: every string over the 20-symbol alphabet up to maxLen after each scheme prefix
	var batch [][]byte
	total := 0
	flush := func() {
		if len(batch) > 0 {
			emitParsed(o, batch, "exhaustive")
			total += len(batch)
			batch = batch[:0]
		}
	}
	var rec func(prefix []byte, d int)
	rec = func(prefix []byte, d int) {
		for _, p := range uriPrefixes {
			batch = append(batch, append([]byte(p), prefix...))
		}
		if len(batch) >= 40000 {
			flush()
		}
		if d == 0 {
			return
		}
		for _, c := range uriAlphabet {
			rec(append(append([]byte(nil), prefix...), c), d-1)
		}
	}
	rec(nil, maxLen)
	flush()
	// the family that made the pinned tree recurse without bound: the opaque part still lacks a port
	// after the default is appended
	var fam [][]byte
	for _, p := range []string{"stun:", "turns:", "TURN:"} {
		for _, tail := range []string{"[::1]x", "[a]b", "[::1]x?transport=udp", "[]]", "[x]y:z", "[[a]", "[a]b#f", "[::1]:", "[::1]", "[::1]]"} {
			fam = append(fam, []byte(p+tail))
		}
	}
	emitParsed(o, fam, "missing-port-family")
	// every host form of the dictionary under every scheme, with and without port and query
	var dict [][]byte
	for _, p := range []string{"stun:", "stuns:", "turn:", "turns:"} {
		for _, h := range uriHostDictionary {
			for _, tail := range []string{"", ":3478", "?transport=udp", ":1?transport=%73ctp", ":5349?transport=tcp"} {
				dict = append(dict, []byte(p+h+tail))
			}
		}
	}
	emitParsed(o, dict, "host-dictionary")
	// the string and character literals of the library's source as hosts, labels, bracketed hosts, query values
	var lits [][]byte
	for k, sv := range litStrs {
		if k >= 250 || len(sv) > 40 {
			continue
		}
		t := string(sv)
		for _, u := range []string{"stun:" + t, "turn:" + t + ":3478", "stun:" + t + "a.example", "stuns:[" + t + "]", "turns:[" + t + "6]:1", "stun:" + t + "-3y.example:3478",
			"turn:h?transport=" + t, "turn:h?" + t + "=udp", "stun:h:" + t} {
			lits = append(lits, []byte(u))
		}
	}
	emitParsed(o, lits, "source-literals")
	// long runs of bytes that are not the start of anything in UTF-8 (continuation bytes), at the front and at the
	// end, in inputs that are refused for other reasons; and queries made of very many empty pairs
	var runs [][]byte
	for _, n := range []int{63, 127, 128, 129, 255, 256, 257, 300, 1100} {
		for _, b := range []string{"\x80", "\xbf", "\xc3"} {
			run := strings.Repeat(b, n)
			for _, u := range []string{run + ":3478", "stun:" + run, "stun:" + run + ":3478", "stun:[" + run + ":1", "stun:a:b:" + run, "turn:h:1?transport=" + run,
				run + "://h", "stun:h:3478\x01" + run, "stuns:[::1" + run} {
				runs = append(runs, []byte(u))
			}
		}
	}
	for _, n := range []int{1000, 20000, 60000} {
		runs = append(runs, []byte("stun:example.org:3478?"+strings.Repeat("&", n)), []byte("turn:example.org?"+strings.Repeat("&", n)+"transport=tcp"),
			[]byte("stuns:h?"+strings.Repeat("&;", n/2)))
	}
	emitParsed(o, runs, "continuation-runs-and-empty-pairs")
	// grammar-mutated, non-ASCII, control characters, very long inputs
	var rnd [][]byte
	n := 3000
	if thorough {
		n = 60000
	}
	for i := 0; i < n; i++ {
		s := genURI(r)
		for k := r.intn(3); k > 0; k-- {
			s = r.mutate(s)
		}
		rnd = append(rnd, s)
	}
	for _, l := range []int{1000, 10000, 100000} {
		rnd = append(rnd, append([]byte("stun:"), bytes.Repeat([]byte("a"), l)...))
		rnd = append(rnd, append([]byte("turn:["), append(bytes.Repeat([]byte(":"), l), []byte("]x")...)...))
		rnd = append(rnd, append([]byte("turns:h:1?"), bytes.Repeat([]byte("a=b&"), l/4)...))
		rnd = append(rnd, append([]byte("stun:h:"), bytes.Repeat([]byte("9"), l)...))
	}
	emitParsed(o, rnd, "generated")
	if crashCount.Load() == 0 {
		// only strings short enough not to dominate; a process that crashes on some string sequentially
		// has been reported above already
		var short [][]byte
		for _, s := range rnd {
			if len(s) <= 300 {
				short = append(short, s)
			}
		}
		concurrentParse(o, short)
	}
	return map[string]interface{}{"exhaustive_part": fmt.Sprintf("every string of length <= %d over %d URI-significant symbols after each of the prefixes stun: stuns: turn: turns: and none: %d strings, each parsed in a child process with a 2 MiB stack limit and a watchdog", maxLen, len(uriAlphabet), total)}
}

// genURI: grammar-generated URI
func genURI(r *rng) []byte {
	scheme := []string{"stun", "stuns", "turn", "turns", "STUN", "Turn", "http", "stunx", ""}[r.intn(9)]
	var host string
	switch r.intn(8) {
	case 0:
		host = "example.org"
	case 1:
		host = "10.0.0.1"
	case 2:
		host = "[::1]"
	case 3:
		host = "[2001:db8::1]"
	case 4:
		host = "[/x]"
	case 5:
		host = "[abc]"
	case 6:
		host = ""
	default:
		host = string(r.bytes(r.intn(6)))
	}
	if r.chance(1, 4) {
		host = uriHostDictionary[r.intn(len(uriHostDictionary))]
	}
	port := []string{"", ":0", ":65535", ":65536", ":-1", ":+5", ":3478", ":5349", ":99999999999999999999", ":08", ":", ":1x", ":443"}[r.intn(13)]
	query := []string{"", "", "?transport=udp", "?transport=tcp", "?transport=sctp", "?transport=%73ctp", "?transport=u%64p", "?transport=tc+p", "?transport=+", "?transport=%00",
		"?transport=%C8%BAtcp", "?%C8%BA=1&transport=tcp", "?x=%ff&transport=udp", "?TRANSPORT=TCP", "?transport=TCP", "?transport=tcp&transport=%73ctp", "?transport=udp&transport=tcp", "?transport=udp&x=1",
		"?x=1", "?", "?tr%61nsport=tcp", "?transport=t%63p", "?transport=udp;x", "?transport=%zz", "?=udp", "?transport", "?transport=udp#frag", "#frag%zz"}
	q := query[r.intn(len(query))]
	sep := ":"
	if r.chance(1, 12) {
		sep = "://"
	}
	return []byte(scheme + sep + host + port + q)
}

// host forms that other specifications give a meaning to: IDNA A-labels (whole, cut short, mistyped), RFC 3986
// IPvFuture literals, RFC 6874 zone identifiers, IPv4-mapped and odd IPv6 spellings, percent escapes, a trailing
// dot, an upper-case and a very long label
var uriHostDictionary = []string{"alice@example.org", "alice:secret@example.org", "@example.org", "a@b@c", "example.org@", "xn--mnchen-3ya.example", "xn--mnchen-3y.example", "stun.xn--p1a", "xn--z", "xn--", "xn---", "xn--a-", "XN--MNCHEN-3YA", "a.xn--", "xn--99999999999",
	"[v6]", "[V4]", "[vface]", "[v]", "[v1.fe80::a+en1]", "[v7.x]", "[vF.]", "[v.]", "[vg]",
	"[fe80::1%25eth0]", "[fe80::1%eth0]", "[fe80::1%]", "[fe80::1%25]", "example.org%", "example.org%2", "example.org%25", "ex%61mple.org", "%", "%zz",
	"[::ffff:192.0.2.1]", "[::ffff:c000:201]", "[0:0:0:0:0:0:0:1]", "[::g]", "[a:b]", "[1::2::3]", "[::1", "::1]", "[]", "[[::1]]", "[ ::1]",
	"example.org.", ".", "..", "EXAMPLE.ORG", "a-.example", "-a.example", "0x7f.1", "0177.0.0.1", "1.2.3", "1.2.3.4.5", "256.1.1.1", "localhost",
	"\u00fc.example", "\u212a.example", "\u0130.example", "a\u200db.example", strings.Repeat("a", 63) + ".example", strings.Repeat("a", 64) + ".example", strings.Repeat("a.", 130) + "example"}

// preParsed caches results of the batched child-process parse (crash containment) for cmd 1701
var preParsed = map[string][]int{}

func execURIRoundTrip(o *out, f [][]int) []int {
	s := field0(f)
	first, ok := preParsed[string(s)]
	if !ok {
		first = parseViaChild(o, s)
	}
	obs := append([]int(nil), first...)
	if first[0] != 0 {
		return obs
	}
	u, err := stun.ParseURI(string(s))
	if err != nil {
		return []int{9}
	}
	str := u.String()
	obs = append(obs, len(str))
	obs = append(obs, intsOf([]byte(str))...)
	u2x, err2 := stun.ParseURI(str) // a formatted URI always carries a port: no default-port path
	second := serURI(u2x, err2)
	obs = append(obs, second...)
	eq := 0
	if second[0] == 0 {
		u2, _ := stun.ParseURI(str)
		if u2 != nil && *u2 == *u {
			eq = 1
		}
	}
	obs = append(obs, eq)
	// C17 oracle (B), in Go: accepted URIs are well formed and round-trip
	if u.Scheme < stun.SchemeTypeSTUN || u.Scheme > stun.SchemeTypeTURNS || u.Host == "" || u.Port < 0 || u.Port > 65535 ||
		(u.Proto != stun.ProtoTypeUDP && u.Proto != stun.ProtoTypeTCP) {
		o.failFor("C17", "accepted-uri-not-wellformed", "1701 "+fHex(s))
	}
	if (u.Scheme == stun.SchemeTypeSTUN && u.Proto != stun.ProtoTypeUDP) || (u.Scheme == stun.SchemeTypeSTUNS && u.Proto != stun.ProtoTypeTCP) {
		o.failFor("C17", "stun-scheme-wrong-transport", "1701 "+fHex(s))
	}
	if eq == 0 {
		o.failFor("C17", "uri-roundtrip-fails", "1701 "+fHex(s)+" string="+fHex([]byte(str)))
	}
	// a formatted URI is a value: formatting another one afterwards does not change it
	kept := str
	keptCopy := string(append([]byte(nil), str...))
	_ = (&stun.URI{Scheme: stun.SchemeTypeTURNS, Host: "another-host-with-a-much-longer-name.example.net", Port: 65000, Proto: stun.ProtoTypeTCP}).String()
	_ = (&stun.URI{Scheme: stun.SchemeTypeSTUN, Host: "x", Port: 1, Proto: stun.ProtoTypeUDP}).String()
	if kept != keptCopy {
		o.failFor("C17", "formatted-uri-changed-later", "1701 "+fHex(s))
	}
	// what ParseURI returns belongs to the caller: editing it (credentials, another port or transport) changes
	// nothing about what the same string parses to next time
	orig := *u
	u.Username, u.Password, u.Port, u.Host = "edited", "edited", 9, "edited.example"
	if u.Proto == stun.ProtoTypeUDP {
		u.Proto = stun.ProtoTypeTCP
	} else {
		u.Proto = stun.ProtoTypeUDP
	}
	if again, err := stun.ParseURI(string(s)); err != nil || again == nil || *again != orig {
		o.failFor("C17", "parse-result-shared-between-callers", "1701 "+fHex(s))
	}
	return append(obs)
}

// ---- DialURI with an injected network ----

type fakeNet struct {
	transport.Net
	mu    sync.Mutex
	dials []string
	conns []*fakeConn
	fail  string // dials of this network ("udp" / "tcp") fail
}

var errScriptedDial = errors.New("scripted dial failure")

type fakeConn struct {
	mu     sync.Mutex
	first  []byte
	closed chan struct{}
	once   sync.Once
	net    string
	raddr  net.Addr
}

func (c *fakeConn) Read(p []byte) (int, error) { <-c.closed; return 0, io.EOF }
func (c *fakeConn) ReadFrom(p []byte) (int, net.Addr, error) {
	<-c.closed
	return 0, nil, io.EOF
}
func (c *fakeConn) Write(p []byte) (int, error) {
	c.mu.Lock()
	if c.first == nil {
		c.first = append([]byte(nil), p...)
	}
	c.mu.Unlock()
	return len(p), nil
}
func (c *fakeConn) WriteTo(p []byte, _ net.Addr) (int, error) { return c.Write(p) }
func (c *fakeConn) Close() error                              { c.once.Do(func() { close(c.closed) }); return nil }
func (c *fakeConn) LocalAddr() net.Addr                       { return &net.UDPAddr{IP: net.IPv4(127, 0, 0, 1), Port: 1} }
func (c *fakeConn) RemoteAddr() net.Addr                      { return c.raddr }
func (c *fakeConn) SetDeadline(time.Time) error               { return nil }
func (c *fakeConn) SetReadDeadline(time.Time) error           { return nil }
func (c *fakeConn) SetWriteDeadline(time.Time) error          { return nil }
func (c *fakeConn) SetReadBuffer(int) error                   { return nil }
func (c *fakeConn) SetWriteBuffer(int) error                  { return nil }
func (c *fakeConn) ReadFromUDP(b []byte) (int, *net.UDPAddr, error) {
	<-c.closed
	return 0, nil, io.EOF
}
func (c *fakeConn) ReadMsgUDP(b, oob []byte) (n, oobn, flags int, addr *net.UDPAddr, err error) {
	<-c.closed
	return 0, 0, 0, nil, io.EOF
}
func (c *fakeConn) WriteToUDP(b []byte, _ *net.UDPAddr) (int, error) { return c.Write(b) }
func (c *fakeConn) WriteMsgUDP(b, oob []byte, addr *net.UDPAddr) (n, oobn int, err error) {
	n, err = c.Write(b)
	return n, 0, err
}

func (f *fakeNet) mk(network, addr string) *fakeConn {
	c := &fakeConn{closed: make(chan struct{}), net: network}
	if network == "udp" {
		c.raddr = &net.UDPAddr{IP: net.IPv4(192, 0, 2, 1), Port: 9}
	} else {
		c.raddr = &net.TCPAddr{IP: net.IPv4(192, 0, 2, 1), Port: 9}
	}
	f.mu.Lock()
	f.dials = append(f.dials, network+" "+addr)
	f.conns = append(f.conns, c)
	f.mu.Unlock()
	return c
}
func (f *fakeNet) Dial(network, address string) (net.Conn, error) {
	if f.fail != "" && strings.HasPrefix(network, f.fail) {
		f.mu.Lock()
		f.dials = append(f.dials, network+" "+address+" (failed)")
		f.mu.Unlock()
		return nil, errScriptedDial
	}
	return f.mk(network, address), nil
}
func (f *fakeNet) DialUDP(network string, laddr, raddr *net.UDPAddr) (transport.UDPConn, error) {
	if f.fail != "" && strings.HasPrefix(network, f.fail) {
		f.mu.Lock()
		f.dials = append(f.dials, network+" "+raddr.String()+" (failed)")
		f.mu.Unlock()
		return nil, errScriptedDial
	}
	return f.mk(network, raddr.String()), nil
}

// failingDialScenarios: when the dial of the URI's own transport fails, DialURI reports that failure; it does
// not quietly try the other transport
func failingDialScenarios(o *out) {
	for _, s := range []string{"stun:192.0.2.7", "stuns:192.0.2.7", "turn:192.0.2.7", "turn:192.0.2.7?transport=udp", "turn:192.0.2.7?transport=tcp",
		"turns:192.0.2.7", "turns:192.0.2.7?transport=udp", "turns:192.0.2.7?transport=tcp"} {
		u, err := stun.ParseURI(s)
		if err != nil {
			continue
		}
		own := "udp"
		if u.Proto == stun.ProtoTypeTCP {
			own = "tcp"
		}
		for _, fail := range []string{"udp", "tcp"} {
			fn := &fakeNet{fail: fail}
			cfg := &stun.DialConfig{Net: fn}
			cfg.TLSConfig.InsecureSkipVerify = true  //nolint:gosec
			cfg.DTLSConfig.InsecureSkipVerify = true //nolint:gosec
			type result struct {
				c   *stun.Client
				err error
			}
			done := make(chan result, 1)
			go func() { c, err := stun.DialURI(u, cfg); done <- result{c, err} }()
			var res result
			select {
			case res = <-done:
			case <-time.After(3 * time.Second):
				res = result{nil, errors.New("dial blocked")}
			}
			fn.mu.Lock()
			dials := strings.Join(fn.dials, "; ")
			other := false
			for _, d := range fn.dials {
				if !strings.HasPrefix(d, own) {
					other = true
				}
			}
			for _, c := range fn.conns {
				_ = c.Close()
			}
			fn.mu.Unlock()
			if res.c != nil {
				go func() { _ = res.c.Close() }()
			}
			detail := fmt.Sprintf("x %s with every %s dial failing: error=%v dials: %s", s, fail, res.err, dials)
			if other {
				o.failFor("C17", "dialed-a-transport-the-uri-does-not-denote", detail)
			}
			if fail == own && res.err == nil {
				o.failFor("C17", "dial-failure-hidden", detail)
			}
			o.count("failing-dial-scenarios")
		}
	}
}
func (f *fakeNet) ResolveUDPAddr(network, address string) (*net.UDPAddr, error) {
	return net.ResolveUDPAddr(network, address)
}

// execDialPlan: field [scheme, proto]: which transport DialURI uses for a hand-made URI value
func execDialPlan(o *out, f [][]int) []int {
	u := &stun.URI{Scheme: stun.SchemeType(f[0][0]), Proto: stun.ProtoType(f[0][1]), Host: "192.0.2.1", Port: 3478}
	fn := &fakeNet{}
	cfg := &stun.DialConfig{Net: fn}
	cfg.TLSConfig.InsecureSkipVerify = true  //nolint:gosec
	cfg.DTLSConfig.InsecureSkipVerify = true //nolint:gosec
	type result struct {
		c   *stun.Client
		err error
	}
	done := make(chan result, 1)
	go func() {
		c, err := stun.DialURI(u, cfg)
		done <- result{c, err}
	}()
	var res result
	select {
	case res = <-done:
	case <-time.After(3 * time.Second):
		// a handshake that blocks inside DialURI: classify by what was put on the wire
		res = result{nil, errors.New("dial blocked")}
	}
	line := "1702 " + fNums(f[0]...)
	if res.err != nil && errors.Is(res.err, stun.ErrUnsupportedURI) {
		if len(fn.dials) != 0 {
			o.failFor("C17", "unsupported-uri-but-dialed", line)
		}
		return []int{4}
	}
	if res.c != nil {
		// trigger the first transmission: an indication (for TLS/DTLS this starts the handshake)
		m := stun.MustBuild(stun.TransactionID, stun.BindingRequest)
		go func() { _ = res.c.Indicate(m) }()
	}
	// wait for the first bytes on the fake connection
	var first []byte
	network := ""
	deadline := time.Now().Add(2 * time.Second)
	for time.Now().Before(deadline) {
		fn.mu.Lock()
		if len(fn.conns) > 0 {
			c := fn.conns[0]
			c.mu.Lock()
			first = c.first
			c.mu.Unlock()
			network = c.net
		}
		fn.mu.Unlock()
		if first != nil {
			break
		}
		time.Sleep(time.Millisecond)
	}
	fn.mu.Lock()
	for _, c := range fn.conns {
		_ = c.Close()
	}
	nd := len(fn.dials)
	fn.mu.Unlock()
	if res.c != nil {
		go func() { _ = res.c.Close() }()
	}
	if nd != 1 || first == nil {
		return []int{9, nd}
	}
	secure := u.Scheme == stun.SchemeTypeSTUNS || u.Scheme == stun.SchemeTypeTURNS
	cleartext := len(first) >= 8 && first[4] == 0x21 && first[5] == 0x12 && first[6] == 0xA4 && first[7] == 0x42
	tlsRec := len(first) >= 3 && first[0] == 0x16 && first[1] == 0x03
	dtlsRec := len(first) >= 3 && first[0] == 0x16 && first[1] == 0xfe
	if secure && cleartext {
		o.failFor("C17", "secure-scheme-dialed-in-plaintext", line)
	}
	if (tlsRec || dtlsRec) && !bytes.Contains(first, []byte("192.0.2.1")) {
		// the host is an IP literal: neither crypto/tls nor pion/dtls puts an IP into SNI; checked with a name below
		_ = first
	}
	switch {
	case cleartext && network == "udp":
		return []int{0}
	case cleartext && network == "tcp":
		return []int{1}
	case dtlsRec && network == "udp":
		return []int{2}
	case tlsRec && network == "tcp":
		return []int{3}
	}
	return []int{8}
}

func runC17(o *out, thorough bool, r *rng, _ []string) map[string]interface{} {
	tlsServerNameScenarios(o)
	n := 4000
	if thorough {
		n = 60000
	}
	// grammar x all combinations first (systematic), then random + mutations
	schemes := []string{"stun", "stuns", "turn", "turns"}
	hosts := []string{"example.org", "10.0.0.1", "[::1]", "[2001:db8::1]", "[/x]", "[abc]", "h"}
	ports := []string{"", ":0", ":65535", ":65536", ":-1", ":+5", ":3478", ":99999999999999999999", ":", ":08"}
	queries := []string{"", "?transport=udp", "?transport=tcp", "?transport=sctp", "?transport=udp&transport=tcp", "?transport=udp&x=1", "?x=1", "?", "?tr%61nsport=tcp"}
	var inputs [][]byte
	for _, s := range schemes {
		for _, h := range hosts {
			for _, p := range ports {
				for _, q := range queries {
					inputs = append(inputs, []byte(s+":"+h+p+q))
				}
			}
		}
	}
	for i := 0; i < n; i++ {
		s := genURI(r)
		if r.chance(1, 3) {
			s = r.mutate(s)
		}
		inputs = append(inputs, s)
	}
	// every host form of the dictionary (zones, percent escapes, IDNA labels, odd IPv6 spellings, userinfo) under every
	// scheme, through parse - format - parse
	for _, p := range []string{"stun:", "stuns:", "turn:", "turns:"} {
		for _, h := range uriHostDictionary {
			for _, tail := range []string{"", ":3478", "?transport=udp", ":5349?transport=tcp"} {
				inputs = append(inputs, []byte(p+h+tail))
			}
		}
	}
	for i, res := range parseBatch(o, inputs) {
		preParsed[string(inputs[i])] = res
	}
	for _, s := range inputs {
		if r0 := preParsed[string(s)]; len(r0) > 0 && r0[0] == 4 {
			o.count("skipped-after-40-crashes")
			continue
		}
		o.run(1701, []string{fHex(s)}, true)
	}
	o.countN("uris", len(inputs))
	// DialURI: all 5 x 3 scheme / transport combinations of hand-made URI values
	for sc := 0; sc <= 4; sc++ {
		for pr := 0; pr <= 2; pr++ {
			o.run(1702, []string{fNums(sc, pr)}, true)
			o.count("dial-combinations")
		}
	}
	dialParsed(o)
	return map[string]interface{}{"exhaustive_part": "4 schemes x 7 host forms x 10 port forms x 9 query forms; all 5 x 3 scheme/transport combinations for DialURI"}
}

// dialParsed: for every URI ParseURI can produce, DialURI dials exactly the transport it denotes; the TLS
// ClientHello names the host
func dialParsed(o *out) {
	for _, s := range []string{"stun:example.org", "stuns:example.org", "turn:example.org", "turn:example.org?transport=tcp",
		"turns:example.org", "turns:example.org?transport=udp", "turns:example.org:443?transport=tcp",
		// IP literals, zoned and oddly spelled ones included: the address dialed is the host as written
		"stun:[2001:db8::1]", "turn:[fe80::1%eth0]", "turn:[fe80::1%eth0]?transport=tcp", "stuns:[fe80::1%eth0]:443", "turns:[fe80::1%eth0]?transport=udp",
		"turns:[fe80::1%eth0]:443?transport=tcp", "turns:[2001:DB8::1]?transport=udp", "turns:[0:0:0:0:0:0:0:1]?transport=udp", "turns:192.0.2.9?transport=udp",
		"turns:[::ffff:192.0.2.1]?transport=udp", "stun:192.0.2.9:1", "turns:[fe80::1%lo]:1?transport=udp"} {
		u, err := stun.ParseURI(s)
		if err != nil {
			if strings.Contains(s, "[") || strings.Contains(s, "192.0.2.9") {
				o.count("dial-literal-not-parsed")
				continue
			}
			o.failFor("C17", "valid-uri-rejected", "1701 "+fHex([]byte(s)))
			continue
		}
		fn := &fakeNet{}
		// example.org must not be resolved through DNS: DialURI resolves the UDP address for DTLS with
		// net.ResolveUDPAddr, which would need the network; use a literal for that case
		host := u.Host
		if u.Scheme == stun.SchemeTypeTURNS && u.Proto == stun.ProtoTypeUDP && host == "example.org" {
			u.Host = "192.0.2.7"
		}
		cfg := &stun.DialConfig{Net: fn}
		cfg.TLSConfig.InsecureSkipVerify = true  //nolint:gosec
		cfg.DTLSConfig.InsecureSkipVerify = true //nolint:gosec
		done := make(chan *stun.Client, 1)
		go func() {
			c, _ := stun.DialURI(u, cfg)
			done <- c
		}()
		var c *stun.Client
		select {
		case c = <-done:
		case <-time.After(3 * time.Second):
		}
		if c != nil {
			m := stun.MustBuild(stun.TransactionID, stun.BindingRequest)
			go func() { _ = c.Indicate(m) }()
		}
		var first []byte
		network := ""
		for k := 0; k < 2000 && first == nil; k++ {
			fn.mu.Lock()
			if len(fn.conns) > 0 {
				fc := fn.conns[0]
				fc.mu.Lock()
				first = fc.first
				fc.mu.Unlock()
				network = fc.net
			}
			fn.mu.Unlock()
			time.Sleep(time.Millisecond)
		}
		fn.mu.Lock()
		dials := append([]string(nil), fn.dials...)
		for _, fc := range fn.conns {
			_ = fc.Close()
		}
		fn.mu.Unlock()
		if c != nil {
			go func() { _ = c.Close() }()
		}
		want := "udp"
		if u.Proto == stun.ProtoTypeTCP {
			want = "tcp"
		}
		wantAddr := net.JoinHostPort(u.Host, fmt.Sprint(u.Port))
		if u.Scheme == stun.SchemeTypeTURNS && u.Proto == stun.ProtoTypeUDP {
			// DTLS: the library resolves the address itself and hands over a *net.UDPAddr - the same address (zone
			// included) in canonical spelling
			if ra, rerr := net.ResolveUDPAddr("udp", wantAddr); rerr == nil {
				wantAddr = ra.String()
			}
		}
		if len(dials) != 1 || dials[0] != want+" "+wantAddr || network != want {
			o.failFor("C17", "dialed-wrong-transport-or-address", fmt.Sprintf("1701 %s dials=%v", fHex([]byte(s)), dials))
			continue
		}
		secure := u.Scheme == stun.SchemeTypeSTUNS || u.Scheme == stun.SchemeTypeTURNS
		cleartext := len(first) >= 8 && first[4] == 0x21 && first[5] == 0x12
		if secure == cleartext {
			o.failFor("C17", "secure-vs-cleartext-mismatch", "1701 "+fHex([]byte(s)))
		}
		_, literalErr := netip.ParseAddr(host)
		if secure && u.Proto == stun.ProtoTypeTCP && literalErr != nil && !bytes.Contains(first, []byte(host)) { // (an IP literal is never sent as a server name)
			o.failFor("C17", "tls-server-name-missing", "1701 "+fHex([]byte(s)))
		}
		o.count("dial-parsed")
	}
}

// ---- TLS: the host is the server name the certificate is verified against ----

// pipeNet: Dial returns one end of a net.Pipe; the other end is handed to the server goroutine
type pipeNet struct {
	transport.Net
	server chan net.Conn
	dialed []string
}

func (p *pipeNet) Dial(network, address string) (net.Conn, error) {
	p.dialed = append(p.dialed, network+" "+address)
	a, b := net.Pipe()
	p.server <- b
	return a, nil
}

// certFor: a self-signed certificate valid for exactly this host (IP or DNS name)
func certFor(host string) (tls.Certificate, *x509.CertPool, error) {
	key, err := ecdsa.GenerateKey(elliptic.P256(), rand.Reader)
	if err != nil {
		return tls.Certificate{}, nil, err
	}
	tpl := &x509.Certificate{SerialNumber: big.NewInt(1), Subject: pkix.Name{CommonName: "verif"},
		NotBefore: time.Now().Add(-time.Hour), NotAfter: time.Now().Add(24 * time.Hour),
		KeyUsage: x509.KeyUsageDigitalSignature | x509.KeyUsageCertSign, ExtKeyUsage: []x509.ExtKeyUsage{x509.ExtKeyUsageServerAuth},
		BasicConstraintsValid: true, IsCA: true}
	if ip := net.ParseIP(host); ip != nil {
		tpl.IPAddresses = []net.IP{ip}
	} else {
		tpl.DNSNames = []string{host}
	}
	der, err := x509.CreateCertificate(rand.Reader, tpl, tpl, &key.PublicKey, key)
	if err != nil {
		return tls.Certificate{}, nil, err
	}
	leaf, err := x509.ParseCertificate(der)
	if err != nil {
		return tls.Certificate{}, nil, err
	}
	pool := x509.NewCertPool()
	pool.AddCert(leaf)
	return tls.Certificate{Certificate: [][]byte{der}, PrivateKey: key, Leaf: leaf}, pool, nil
}

// tlsServerNameScenarios (oracle in Go): for secure schemes over TCP, DialURI verifies the server against
// the URI's host — DNS names and IP literals alike: a server whose certificate is valid for exactly that
// host completes the handshake, a server with a certificate for another host does not.
// defaultNetScenarios: DialURI with no injected network (the library's own stdnet) against a loopback TCP
// listener: a secure scheme starts with a TLS ClientHello, a plain one with a STUN header
func defaultNetScenarios(o *out) {
	ln, err := net.Listen("tcp", "127.0.0.1:0")
	if err != nil {
		o.count("tcp-loopback-unavailable")
		return
	}
	defer ln.Close()
	port := ln.Addr().(*net.TCPAddr).Port
	for _, sc := range []struct {
		uri    string
		secure bool
	}{{fmt.Sprintf("stuns:127.0.0.1:%d", port), true}, {fmt.Sprintf("turns:127.0.0.1:%d?transport=tcp", port), true}, {fmt.Sprintf("turn:127.0.0.1:%d?transport=tcp", port), false}} {
		u, err := stun.ParseURI(sc.uri)
		if err != nil {
			continue
		}
		first := make(chan []byte, 1)
		go func() {
			c, err := ln.Accept()
			if err != nil {
				first <- nil
				return
			}
			defer c.Close()
			_ = c.SetReadDeadline(time.Now().Add(2 * time.Second))
			buf := make([]byte, 64)
			n, _ := c.Read(buf)
			first <- buf[:n]
		}()
		cfg := &stun.DialConfig{}
		cfg.TLSConfig.InsecureSkipVerify = true //nolint:gosec
		done := make(chan *stun.Client, 1)
		go func() {
			c, _ := stun.DialURI(u, cfg)
			if c != nil {
				go func() { _ = c.Indicate(stun.MustBuild(stun.TransactionID, stun.BindingRequest)) }()
			}
			done <- c
		}()
		var b []byte
		select {
		case b = <-first:
		case <-time.After(3 * time.Second):
		}
		select {
		case c := <-done:
			if c != nil {
				go func() { _ = c.Close() }()
			}
		case <-time.After(3 * time.Second):
		}
		tlsRec := len(b) >= 3 && b[0] == 0x16 && b[1] == 0x03
		clear := len(b) >= 8 && b[4] == 0x21 && b[5] == 0x12 && b[6] == 0xA4 && b[7] == 0x42
		if (sc.secure && !tlsRec) || (!sc.secure && !clear) {
			o.failFor("C17", "secure-scheme-dialed-in-plaintext", fmt.Sprintf("x %s through the library's own network (no injected Net): first bytes on the wire %x", sc.uri, b))
		}
		o.count("default-net-dials")
	}
}

func tlsServerNameScenarios(o *out) {
	failingDialScenarios(o)
	defaultNetScenarios(o)
	for _, host := range []string{"192.0.2.7", "2001:db8::7", "turn.example.org", "127.0.0.1"} {
		for _, raw := range []string{"stuns:%s:5349", "turns:%s:443?transport=tcp"} {
			for _, right := range []bool{true, false} {
				h := host
				if strings.Contains(h, ":") {
					h = "[" + h + "]"
				}
				uri := fmt.Sprintf(raw, h)
				u, err := stun.ParseURI(uri)
				if err != nil {
					o.failFor("C17", "valid-uri-rejected", "x "+uri)
					continue
				}
				certHost := host
				if !right {
					certHost = map[bool]string{true: "198.51.100.9", false: "other.example.net"}[net.ParseIP(host) != nil]
				}
				cert, pool, err := certFor(certHost)
				if err != nil {
					continue
				}
				pn := &pipeNet{server: make(chan net.Conn, 1)}
				result := make(chan error, 1)
				go func() {
					select {
					case c := <-pn.server:
						srv := tls.Server(c, &tls.Config{Certificates: []tls.Certificate{cert}, MinVersion: tls.VersionTLS12})
						_ = c.SetDeadline(time.Now().Add(3 * time.Second))
						result <- srv.Handshake()
						_ = c.Close()
					case <-time.After(3 * time.Second):
						result <- errors.New("never dialed")
					}
				}()
				c, derr := stun.DialURI(u, &stun.DialConfig{Net: pn, TLSConfig: tls.Config{RootCAs: pool, MinVersion: tls.VersionTLS12}})
				var herr error
				select {
				case herr = <-result:
				case <-time.After(4 * time.Second):
					herr = errors.New("timeout")
				}
				if c != nil {
					_ = c.Close()
				}
				detail := fmt.Sprintf("x %s certificate-for=%s dial-error=%v handshake=%v", uri, certHost, derr, herr)
				if right && (derr != nil || herr != nil) {
					o.failFor("C17", "tls-server-name-not-the-host", detail)
				}
				if !right && herr == nil {
					o.failFor("C17", "tls-accepts-certificate-for-another-host", detail)
				}
				o.count("tls-handshake-scenarios")
			}
		}
	}
	// one DialConfig used for several secure URIs in a row (with and without a ServerName preset by the
	// caller): every handshake names the host of ITS URI, and the caller's configuration is left as it was
	for _, preset := range []string{"", "preset.example.com"} {
		cfg := &stun.DialConfig{TLSConfig: tls.Config{MinVersion: tls.VersionTLS12, ServerName: preset}}
		for i, host := range []string{"first.example.org", "second.example.org", "192.0.2.7", "first.example.org"} {
			uri := "turns:" + host + ":443?transport=tcp"
			if i%2 == 1 {
				uri = "stuns:" + host + ":5349"
			}
			u, err := stun.ParseURI(uri)
			if err != nil {
				continue
			}
			cert, pool, err := certFor(host)
			if err != nil {
				continue
			}
			pn := &pipeNet{server: make(chan net.Conn, 1)}
			cfg.Net = pn
			cfg.TLSConfig.RootCAs = pool
			result := make(chan error, 1)
			go func() {
				select {
				case c := <-pn.server:
					srv := tls.Server(c, &tls.Config{Certificates: []tls.Certificate{cert}, MinVersion: tls.VersionTLS12})
					_ = c.SetDeadline(time.Now().Add(3 * time.Second))
					result <- srv.Handshake()
					_ = c.Close()
				case <-time.After(3 * time.Second):
					result <- errors.New("never dialed")
				}
			}()
			c, derr := stun.DialURI(u, cfg)
			var herr error
			select {
			case herr = <-result:
			case <-time.After(4 * time.Second):
				herr = errors.New("timeout")
			}
			if c != nil {
				_ = c.Close()
			}
			detail := fmt.Sprintf("x shared DialConfig (preset ServerName %q), dial #%d %s dial-error=%v handshake=%v ServerName-afterwards=%q", preset, i, uri, derr, herr, cfg.TLSConfig.ServerName)
			if derr != nil || herr != nil {
				o.failFor("C17", "tls-server-name-not-the-host", detail)
			}
			if cfg.TLSConfig.ServerName != preset {
				o.failFor("C17", "dial-changes-callers-config", detail)
			}
			o.count("tls-shared-config-scenarios")
		}
	}
}
