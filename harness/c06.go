package main

import (
	"sync"
	"runtime"
	"sync/atomic"
	"bytes"
	"fmt"
	"net"

	"github.com/pion/stun/v3"
)

// C06 (round trips, RFC wire formats) and C07 (getters/checkers total, local, side-effect free).

func init() {
	props["C06"] = runC06
	props["C07"] = runC07
	cmds[701] = execGetter
	cmds[601] = execRoundTrip
	cmds[602] = execSpecEncode
	cmds[603] = execAttrSpecDecode
}

// getterResult runs getter g on m; returns the serialised result (status first) and an error string
// (full text, used only to compare the implementation with itself on twins).
// dirtyN varies what the destination of a getter holds before the call: nothing, a longer previous
// value, a shorter one, an empty value with spare capacity.  The result must not depend on it.
var dirtyN atomic.Int64

func dirtyBytes() []byte {
	switch dirtyN.Add(1) % 5 {
	case 0:
		return nil
	case 1:
		return []byte("previous-value-that-is-rather-long-0123456789")
	case 2:
		return []byte{0xEE, 0xEE, 0xEE}
	case 3:
		return make([]byte, 0, 64)
	default:
		return append(make([]byte, 0, 32), 0xAA, 0xBB, 0xCC, 0xDD)
	}
}

func dirtyIP() net.IP {
	switch dirtyN.Add(1) % 5 {
	case 0:
		return nil
	case 1:
		return net.IP{9, 9, 9, 9}
	case 2:
		return net.ParseIP("2001:db8:ffff:ffff:ffff:ffff:ffff:ffff")
	case 3:
		return append(make(net.IP, 0, 16), 7, 7, 7, 7)
	default:
		return make(net.IP, 3, 32)
	}
}

func getterResult(g, t int, key []byte, m *stun.Message) (obs []int, errText string) {
	var err error
	var val []int
	pan, what := guarded(func() {
		switch g {
		case 1:
			a := stun.XORMappedAddress{IP: dirtyIP(), Port: 4711}
			if stun.AttrType(t) == stun.AttrXORMappedAddress {
				err = a.GetFrom(m)
			} else {
				err = a.GetFromAs(m, stun.AttrType(t))
			}
			if err == nil {
				val = append([]int{a.Port, len(a.IP)}, intsOf(a.IP)...)
			}
		case 2:
			var ip net.IP
			var port int
			switch stun.AttrType(t) {
			case stun.AttrAlternateServer:
				a := stun.AlternateServer{IP: dirtyIP(), Port: 4711}
				err = a.GetFrom(m)
				ip, port = a.IP, a.Port
			case stun.AttrResponseOrigin:
				a := stun.ResponseOrigin{IP: dirtyIP(), Port: 4711}
				err = a.GetFrom(m)
				ip, port = a.IP, a.Port
			case stun.AttrOtherAddress:
				a := stun.OtherAddress{IP: dirtyIP(), Port: 4711}
				err = a.GetFrom(m)
				ip, port = a.IP, a.Port
			case stun.AttrMappedAddress:
				a := stun.MappedAddress{IP: dirtyIP(), Port: 4711}
				err = a.GetFrom(m)
				ip, port = a.IP, a.Port
			default:
				a := stun.MappedAddress{IP: dirtyIP(), Port: 4711}
				err = a.GetFromAs(m, stun.AttrType(t))
				ip, port = a.IP, a.Port
			}
			if err == nil {
				val = append([]int{port, len(ip)}, intsOf(ip)...)
			}
		case 3:
			var v []byte
			switch stun.AttrType(t) {
			case stun.AttrUsername:
				a := stun.Username(dirtyBytes())
				err = a.GetFrom(m)
				v = a
			case stun.AttrRealm:
				a := stun.Realm(dirtyBytes())
				err = a.GetFrom(m)
				v = a
			case stun.AttrNonce:
				a := stun.Nonce(dirtyBytes())
				err = a.GetFrom(m)
				v = a
			case stun.AttrSoftware:
				a := stun.Software(dirtyBytes())
				err = a.GetFrom(m)
				v = a
			default:
				a := stun.TextAttribute(dirtyBytes())
				err = a.GetFromAs(m, stun.AttrType(t))
				v = a
			}
			if err == nil {
				val = append([]int{len(v)}, intsOf(v)...)
			}
		case 4:
			a := stun.ErrorCodeAttribute{Code: 999, Reason: dirtyBytes()}
			err = a.GetFrom(m)
			if err == nil {
				val = append([]int{int(a.Code), len(a.Reason)}, intsOf(a.Reason)...)
			}
		case 5:
			a := stun.UnknownAttributes{1, 2, 3, 4, 5, 6, 7, 8, 9}[:dirtyN.Load()%10]
			err = a.GetFrom(m)
			if err == nil {
				val = []int{len(a)}
				for _, x := range a {
					val = append(val, int(x))
				}
			}
		case 6:
			err = stun.MessageIntegrity(key).Check(m)
		default:
			err = stun.Fingerprint.Check(m)
		}
	})
	if pan {
		return []int{2}, "panic: " + what
	}
	if err != nil {
		return []int{1}, err.Error()
	}
	return append([]int{0}, val...), ""
}

// execGetter: fields data, extra, [getter, type], key
func execGetter(o *out, f [][]int) []int {
	data, extra := bytesOf(f[0]), bytesOf(f[1])
	g, t := f[2][0], f[2][1]
	var key []byte
	if len(f) > 3 {
		key = bytesOf(f[3])
	}
	buf := make([]byte, len(data)+len(extra))
	copy(buf, data)
	copy(buf[len(data):], extra)
	m := &stun.Message{Raw: buf[:len(data):len(buf)]}
	if err := m.Decode(); err != nil {
		return []int{1}
	}
	before := fmt.Sprint(serMsg(m))
	spareBefore := append([]byte(nil), buf[len(data):]...)
	res, _ := getterResult(g, t, key, m)
	if g != 6 && !bytes.Equal(spareBefore, buf[len(data):]) {
		// (MESSAGE-INTEGRITY's check is known to use the spare capacity behind Raw - see the C20 finding; nothing else may)
		o.fail("writes-behind-the-message", "701 "+fHex(data)+" "+fHex(extra)+" "+fNums(g, t)+" "+fHex(key))
	}
	obs := append([]int{0}, res...)
	if res[0] == 2 {
		o.failFor("C07", "getter-panic", "701 "+fHex(data)+" "+fHex(extra)+" "+fNums(g, t)+" "+fHex(key))
		return obs
	}
	after := serMsg(m)
	if fmt.Sprint(after) != before {
		o.failFor("C07", "getter-side-effect", "701 "+fHex(data)+" "+fHex(extra)+" "+fNums(g, t)+" "+fHex(key))
	}
	return append(obs, digest(after))
}

// twinCheck: the same message in two buffers that differ only OUTSIDE the attribute's own value
// (spare capacity content, padding bytes, neighbouring attributes' values) must give the same result,
// error text included (implementation against itself).
func twinCheck(o *out, g, t int, key []byte, a, aextra, b, bextra []byte, what string) {
	run := func(data, extra []byte) string {
		buf := make([]byte, len(data)+len(extra))
		copy(buf, data)
		copy(buf[len(data):], extra)
		m := &stun.Message{Raw: buf[:len(data):len(buf)]}
		if err := m.Decode(); err != nil {
			return "decode-error"
		}
		res, txt := getterResult(g, t, key, m)
		return fmt.Sprint(res, txt)
	}
	ra, rb := run(a, aextra), run(b, bextra)
	if ra != rb {
		o.failFor("C07", "getter-not-local:"+what, fmt.Sprintf("701 %s %s %s %s | twin %s %s | %q vs %q",
			fHex(a), fHex(aextra), fNums(g, t), fHex(key), fHex(b), fHex(bextra), ra, rb))
	}
	o.count("twins")
}

var sharedKeyBuf = make([]byte, 128)

var getterTypes = map[int][]int{
	1: {0x0020, 0x0012, 0x0016},
	2: {0x0001, 0x8023, 0x802b, 0x802C, 0x0004},
	3: {0x0006, 0x0014, 0x0015, 0x8022, 0x0013},
	4: {0x0009},
	5: {0x000A},
	6: {0x0008},
	7: {0x8028},
}

// concurrentXorGetters: goroutines (4 per P) each read XOR addresses (IPv6 and IPv4, three attribute types) from
// a message of their own with a transaction ID of their own: every result is that message's address
func concurrentXorGetters(o *out, prop string, rounds int) {
	var wg sync.WaitGroup
	var mu sync.Mutex
	bad := ""
	for w := 0; w < 4*runtime.GOMAXPROCS(0); w++ {
		wg.Add(1)
		go func(w int) {
			defer wg.Done()
			rr := newRng(uint64(7000 + w))
			ip := rr.bytes([]int{16, 16, 4}[w%3])
			port := rr.intn(65536)
			m := new(stun.Message)
			if m.Build(stun.BindingSuccess, stun.NewTransactionIDSetter(agentTID(w*991)), &stun.XORMappedAddress{IP: ip, Port: port}) != nil {
				return
			}
			d := new(stun.Message)
			if stun.Decode(m.Raw, d) != nil {
				return
			}
			var a stun.XORMappedAddress
			for i := 0; i < rounds; i++ {
				if err := a.GetFrom(d); err != nil || !bytes.Equal(a.IP, ip) || a.Port != port {
					mu.Lock()
					if bad == "" {
						bad = fmt.Sprintf("701 %s - 1,32 (goroutine %d round %d: read %v:%d, the message says %v:%d, err %v)", fHex(m.Raw), w, i, []byte(a.IP), a.Port, ip, port, err)
					}
					mu.Unlock()
					return
				}
			}
		}(w)
	}
	wg.Wait()
	if bad != "" {
		o.failFor(prop, "concurrent-result-differs", bad)
	}
	o.countN("concurrent-xor-getters", rounds*4*runtime.GOMAXPROCS(0))
}

func runC07(o *out, thorough bool, r *rng, _ []string) map[string]interface{} {
	concurrentXorGetters(o, "C07", 3000)
	sharedDestinationMonitor(o, r, 300)
	destinationChainMonitor(o, r, 1500)
	lookupCases(o, r, 600) // getters run through ForEach: a failing callback must not leave the message truncated
	// UNKNOWN-ATTRIBUTES values that end in a repeated type, or are one 16-bit pattern throughout
	for i := 0; i < 60; i++ {
		n := 1 + i%9
		var enc []byte
		for k := 0; k < n; k++ {
			t := r.attrType()
			if i%3 == 0 {
				t = []int{0, 0xffff, 0x0014, 0x8022}[i/3%4]
			}
			enc = append(enc, byte(t>>8), byte(t))
		}
		enc = append(enc, enc[len(enc)-2:]...)
		body := r.tlv(0x000a, enc, len(enc))
		ex := fill(r, r.pick([]int{0, 0, 3, 8}), r.intn(3))
		o.run(701, []string{fHex(append(header(0x0111, len(body), r.bytes(12)), body...)), fHex(ex), fNums(5, 10), "-"}, true)
		o.count("unknown-lists-ending-in-a-repeated-type")
	}
	reps := 2
	if thorough {
		reps = 12
	}
	tid := tid0
	for g := 1; g <= 7; g++ {
		for _, t := range getterTypes[g] {
			for l := 0; l <= 40; l++ { // EVERY value length 0..40
				for rep := 0; rep < reps; rep++ {
					for pos := 0; pos < 3; pos++ { // first / middle / last attribute
						val := r.bytes(l)
						// make plausible values likely: family byte 1/2, lengths 8/20
						if l >= 2 && r.chance(2, 3) && (g == 1 || g == 2) {
							val[0], val[1] = 0, byte(1+r.intn(2))
						}
						mk := func(padByte byte, nbVal []byte) []byte {
							var body []byte
							nb := func() []byte {
								b := []byte{0x80, 0x30, 0, byte(len(nbVal))} // a type no getter serves
								b = append(b, nbVal...)
								for i := len(nbVal); i < pad4(len(nbVal)); i++ {
									b = append(b, padByte)
								}
								return b
							}
							if pos >= 1 {
								body = append(body, nb()...)
							}
							body = append(body, byte(t>>8), byte(t), 0, byte(l))
							body = append(body, val...)
							for i := l; i < pad4(l); i++ {
								body = append(body, padByte)
							}
							if pos <= 1 {
								body = append(body, nb()...)
							}
							return append(header(0x0101, len(body), tid), body...)
						}
						nbv := r.bytes(r.intn(7))
						data := mk(byte(r.intn(256)), nbv)
						var key []byte
						if g == 6 {
							key = r.bytes(r.pick([]int{0, 5, 20, 64, 65}))
						}
						// capacity: exact, +1..+64; surrounding bytes zero / 0xFF / random
						extras := [][]byte{nil, fill(r, r.rangeIn(1, 64), r.intn(3))}
						if l <= 4 {
							extras = append(extras, []byte{0, 1}, []byte{0, 2, 0, 0}, []byte{0})
						}
						for _, ex := range extras {
							o.run(701, []string{fHex(data), fHex(ex), fNums(g, t), fHex(key)}, true)
						}
						// twins: same value, different padding content / neighbour values / spare bytes
						other := mk(byte(r.intn(256)), r.bytes(len(nbv)))
						twinCheck(o, g, t, key, data, nil, data, fill(r, r.rangeIn(1, 64), 1+r.intn(2)), "capacity")
						if g != 6 && g != 7 { // the checkers cover the neighbouring bytes by definition
							twinCheck(o, g, t, key, data, []byte{0, 1, 0, 0}, other, []byte{0xFF, 0xFF}, "padding+neighbours")
						}
					}
				}
			}
		}
	}
	// the designed use of ForEach: several attributes of one type, the getter called in the callback reads the
	// VISITED one; each result is what the getter reads from a message holding that attribute alone
	for g := 1; g <= 5; g++ {
		for _, t := range getterTypes[g] {
			for rep := 0; rep < 6; rep++ {
				var body []byte
				var singles [][]byte
				k := r.rangeIn(2, 4)
				for j := 0; j < k; j++ {
					l := r.pick([]int{0, 4, 8, 12, 20, 7})
					val := r.bytes(l)
					if l >= 2 && (g == 1 || g == 2) {
						val[0], val[1] = 0, byte(1+r.intn(2))
					}
					if g == 4 && l >= 4 {
						val[0], val[1], val[2], val[3] = 0, 0, byte(3+r.intn(4)), byte(r.intn(100))
					}
					tl := r.tlv(t, val, l)
					if j > 0 && r.chance(1, 2) {
						body = append(body, r.tlv(0x8030, r.bytes(5), 5)...)
					}
					body = append(body, tl...)
					singles = append(singles, append(header(0x0101, len(tl), tid), tl...))
				}
				data := append(header(0x0101, len(body), tid), body...)
				dm := new(stun.Message)
				if stun.Decode(data, dm) != nil {
					continue
				}
				var inside []string
				_ = dm.ForEach(stun.AttrType(t), func(mm *stun.Message) error {
					res, txt := getterResult(g, t, nil, mm)
					inside = append(inside, fmt.Sprint(res, txt))
					return nil
				})
				var alone []string
				for _, sd := range singles {
					sm := new(stun.Message)
					if stun.Decode(sd, sm) != nil {
						alone = append(alone, "undecodable")
						continue
					}
					res, txt := getterResult(g, t, nil, sm)
					alone = append(alone, fmt.Sprint(res, txt))
				}
				if fmt.Sprint(inside) != fmt.Sprint(alone) {
					o.failFor("C07", "getter-inside-foreach-reads-another-attribute", fmt.Sprintf("701 %s - %s (getter results inside ForEach: %v; each attribute alone: %v)", fHex(data), fNums(g, t), inside, alone))
				}
				o.count("getters-inside-foreach")
			}
		}
	}
	// the attribute is not there at all: a message without attributes, with attributes of other types only, with
	// the type present only AFTER the declared length (trailing bytes)
	for g := 1; g <= 7; g++ {
		for _, t := range getterTypes[g] {
			var key []byte
			if g == 6 {
				key = r.bytes(20)
			}
			empty := header(0x0101, 0, tid)
			others := append(header(0x0101, 16, tid), append(r.tlv(0x8030, r.bytes(3), 3), r.tlv(0x8031, r.bytes(8), 8)...)...)
			trailing := append(append([]byte(nil), empty...), r.tlv(t, r.bytes(8), 8)...)
			for _, data := range [][]byte{empty, others, trailing} {
				for _, ex := range [][]byte{nil, fill(r, r.rangeIn(1, 64), r.intn(3))} {
					o.run(701, []string{fHex(data), fHex(ex), fNums(g, t), fHex(key)}, true)
				}
			}
			o.count("absent-attribute-cases")
		}
	}
	// checkers on real signed / fingerprinted messages (valid and corrupted), with trailing attributes
	n := 300
	if thorough {
		n = 4000
	}
	for i := 0; i < n; i++ {
		key := r.bytes(r.pick([]int{1, 16, 20, 64, 100}))
		m := new(stun.Message)
		setters := []stun.Setter{stun.BindingRequest, stun.NewTransactionIDSetter([12]byte{1, 2, 3})}
		for k := r.intn(4); k > 0; k-- {
			setters = append(setters, stun.RawAttribute{Type: stun.AttrType(0x8022 + r.intn(3)), Value: r.bytes(r.intn(12))})
		}
		setters = append(setters, stun.MessageIntegrity(key))
		if r.chance(1, 2) {
			for k := r.intn(3); k > 0; k-- {
				setters = append(setters, stun.RawAttribute{Type: 0x8030, Value: r.bytes(r.intn(9))})
			}
		}
		if r.chance(1, 2) {
			setters = append(setters, stun.Fingerprint)
		}
		if err := m.Build(setters...); err != nil {
			continue
		}
		data := append([]byte(nil), m.Raw...)
		if r.chance(1, 3) {
			data[r.intn(len(data))] ^= 1 << uint(r.intn(8))
		}
		if i%3 == 1 {
			// bytes after the declared length: Decode tolerates them and keeps them in Raw; a check leaves them there
			data = append(data, r.bytes(r.pick([]int{1, 4, 8, 12, 20}))...)
		}
		if i%3 == 2 {
			data[0] |= byte(0x40 << uint(i%2)) // a type word with one of its two leading bits set: decodable, and left as it is
		}
		// the verdicts do not depend on where the check is called from (a ForEach callback sees a Message whose
		// attribute list is cut to the visited attribute while the callback runs), nor on the key living in a
		// buffer that held another key a moment ago
		if dm := new(stun.Message); stun.Decode(data, dm) == nil && len(dm.Attributes) > 0 {
			direct := stun.MessageIntegrity(append([]byte(nil), key...)).Check(dm) == nil
			directFP := stun.Fingerprint.Check(dm) == nil
			visit := dm.Attributes[r.intn(len(dm.Attributes))].Type
			inside, insideFP, visited := direct, directFP, false
			snapshot := fmt.Sprint(serMsg(dm))
			_ = dm.ForEach(visit, func(mm *stun.Message) error {
				if !visited {
					visited = true
					inside = stun.MessageIntegrity(append([]byte(nil), key...)).Check(mm) == nil
					insideFP = stun.Fingerprint.Check(mm) == nil
				}
				return nil
			})
			// inside the callback the Message is the view that starts at the visited attribute: a check whose own
			// attribute lies before it is not in that view (by design) and is not compared
			first := func(t stun.AttrType) int {
				for k, a := range dm.Attributes {
					if a.Type == t {
						return k
					}
				}
				return -1
			}
			if first(visit) > first(stun.AttrMessageIntegrity) {
				inside = direct
			}
			if first(visit) > first(stun.AttrFingerprint) {
				insideFP = directFP
			}
			if inside != direct || insideFP != directFP || fmt.Sprint(serMsg(dm)) != snapshot {
				o.failFor("C07", "check-depends-on-the-caller", fmt.Sprintf("701 %s - 6,8 %s (inside a ForEach(%#x) callback: integrity %v, fingerprint %v; called directly: %v, %v)", fHex(data), fHex(key), int(visit), inside, insideFP, direct, directFP))
			}
			if len(key) <= len(sharedKeyBuf) {
				kb := sharedKeyBuf[:len(key)]
				copy(kb, key)
				viaBuf := stun.MessageIntegrity(kb).Check(dm) == nil
				for k := range kb {
					kb[k] ^= 0x3C // the buffer now holds another key of the same length
				}
				other := stun.MessageIntegrity(kb).Check(dm) == nil
				// and again and again with the buffer's content alternating between the key and another one (a pooled
				// HMAC state comes back to the same caller more often than not)
				for rep := 0; rep < 40 && viaBuf == direct && !(other && len(kb) > 0); rep++ {
					copy(kb, key)
					viaBuf = stun.MessageIntegrity(kb).Check(dm) == nil
					for k := range kb {
						kb[k] ^= byte(0x11 + rep)
					}
					other = stun.MessageIntegrity(kb).Check(dm) == nil
				}
				if viaBuf != direct || (other && len(kb) > 0) {
					o.failFor("C07", "check-depends-on-the-key-buffer", fmt.Sprintf("701 %s - 6,8 %s (key in a reused buffer: %v, fresh copy: %v, after the buffer was overwritten with another key: %v)", fHex(data), fHex(key), viaBuf, direct, other))
				}
			}
		}
		ex := fill(r, r.pick([]int{0, 0, 7, 19, 20, 21, 64}), r.intn(3))
		o.run(701, []string{fHex(data), fHex(ex), fNums(6, 8), fHex(key)}, true)
		o.run(701, []string{fHex(data), fHex(ex), fNums(7, 0x8028), "-"}, true)
		{
			// a valid MESSAGE-INTEGRITY followed by a FINGERPRINT-typed attribute of any value length
			plain := signedMessage(r, key, r.intn(3), 0, true, false)
			l := r.pick([]int{0, 1, 2, 3, 5, 6, 7, 8, 12, 20, 40})
			ext := append(append([]byte(nil), plain...), r.tlv(0x8028, r.bytes(l), l)...)
			bl := len(ext) - 20
			ext[2], ext[3] = byte(bl>>8), byte(bl)
			o.run(701, []string{fHex(ext), fHex(ex), fNums(6, 8), fHex(key)}, true)
			o.run(701, []string{fHex(ext), fHex(ex), fNums(7, 0x8028), "-"}, true)
		}
		o.count("signed-messages")
	}
	return map[string]interface{}{"exhaustive_part": "every getter/checker x every attribute type it serves x EVERY value length 0..40 x position first/middle/last x capacity exact and +1..+64 (+ the 1..4 byte tails that a short value could over-read)"}
}

// ---------------------------------------------------------------- C06

func addrSetterField(kind, t, port int, ip []byte) string {
	return withBytes([]int{kind, t, port}, ip)
}

// execRoundTrip: fields tid, setter, [getter, type], key
func execRoundTrip(o *out, f [][]int) []int {
	var tid [12]byte
	copy(tid[:], bytesOf(f[0]))
	s := mkSetter(f[1], nil)
	g, t := f[2][0], f[2][1]
	var key []byte
	if len(f) > 3 {
		key = bytesOf(f[3])
	}
	m := new(stun.Message)
	err := m.Build(stun.NewType(1, 0), stun.NewTransactionIDSetter(tid), s)
	if err != nil {
		return []int{1, errKind(err)}
	}
	obs := []int{0, 0, len(m.Raw)}
	obs = append(obs, intsOf(m.Raw)...)
	if k := f[1][0]; k != 10 && k != 11 {
		// the same message put together the other way round - header first with the zero transaction ID, then the
		// fields, the attribute, and the header written again at the end: the attribute's bytes depend on the value
		// and on the TransactionID FIELD only (integrity and fingerprint, which cover the header bytes, excepted)
		m2 := new(stun.Message)
		m2.WriteHeader()
		m2.Type = stun.NewType(1, 0)
		m2.TransactionID = tid
		var err2 error
		pan, _ := guarded(func() { err2 = mkSetter(f[1], nil).AddTo(m2) })
		m2.WriteHeader()
		if pan || err2 != nil || !bytes.Equal(m2.Raw, m.Raw) {
			o.failFor("C06", "attribute-depends-on-construction-order", "601 "+fNums(f[0]...)+" "+fNums(f[1]...)+" "+fNums(f[2]...))
		}
	}
	{
		// and built twice into one Message whose buffer is full of old bytes: every byte of the value is written
		// (reserved fields, padding), none is inherited
		m3 := &stun.Message{Raw: bytes.Repeat([]byte{0xEE}, len(m.Raw)+64)[:0]}
		_ = m3.Build(stun.NewType(0xfff, 3), stun.NewTransactionIDSetter([12]byte{0xEE, 0xEE, 0xEE}), stun.RawAttribute{Type: 0x8030, Value: bytes.Repeat([]byte{0xDD}, len(m.Raw)+8)})
		err3 := m3.Build(stun.NewType(1, 0), stun.NewTransactionIDSetter(tid), mkSetter(f[1], nil))
		if err3 != nil || !bytes.Equal(m3.Raw, m.Raw) {
			o.failFor("C06", "attribute-inherits-old-bytes", "601 "+fNums(f[0]...)+" "+fNums(f[1]...)+" "+fNums(f[2]...))
		}
	}
	if f[1][0] == 7 && len(f[1]) == 2 {
		// an empty reason phrase is an empty reason phrase, nil or not
		for _, reason := range [][]byte{nil, {}} {
			m4 := new(stun.Message)
			err4 := m4.Build(stun.NewType(1, 0), stun.NewTransactionIDSetter(tid), stun.ErrorCodeAttribute{Code: stun.ErrorCode(f[1][1]), Reason: reason})
			if err4 != nil || !bytes.Equal(m4.Raw, m.Raw) {
				o.failFor("C06", "nil-and-empty-reason-differ", "601 "+fNums(f[0]...)+" "+fNums(f[1]...)+" "+fNums(f[2]...))
			}
		}
	}
	d := new(stun.Message)
	if derr := stun.Decode(m.Raw, d); derr != nil {
		return append(obs, 1)
	}
	obs = append(obs, 0)
	res, _ := getterResult(g, t, key, d)
	return append(obs, res...)
}

// execSpecEncode: the value bytes the library's setter writes; fields tid, [kind, num], bytes
func execSpecEncode(o *out, f [][]int) []int {
	var tid [12]byte
	copy(tid[:], bytesOf(f[0]))
	kind, num := f[1][0], f[1][1]
	var bs []int
	if len(f) > 2 {
		bs = f[2]
	}
	m := new(stun.Message)
	var s stun.Setter
	var t stun.AttrType
	switch kind {
	case 1:
		s, t = stun.XORMappedAddress{IP: net.IP(bytesOf(bs)), Port: num}, stun.AttrXORMappedAddress
	case 2:
		s, t = &stun.MappedAddress{IP: net.IP(bytesOf(bs)), Port: num}, stun.AttrMappedAddress
	case 3:
		s, t = stun.ErrorCodeAttribute{Code: stun.ErrorCode(num), Reason: bytesOf(bs)}, stun.AttrErrorCode
	default:
		ua := stun.UnknownAttributes{}
		for _, x := range bs {
			ua = append(ua, stun.AttrType(x))
		}
		s, t = ua, stun.AttrUnknownAttributes
	}
	if err := m.Build(stun.NewType(1, 0), stun.NewTransactionIDSetter(tid), s); err != nil {
		return []int{999999}
	}
	v, err := m.Get(t)
	if err != nil {
		return []int{999998}
	}
	return intsOf(v)
}

// execAttrSpecDecode: what the library's getter reads from an attribute holding the given value;
// fields tid, [kind], value
func execAttrSpecDecode(o *out, f [][]int) []int {
	var tid [12]byte
	copy(tid[:], bytesOf(f[0]))
	kind := f[1][0]
	var val []byte
	if len(f) > 2 {
		val = bytesOf(f[2])
	}
	types := map[int]stun.AttrType{1: stun.AttrXORMappedAddress, 2: stun.AttrMappedAddress, 3: stun.AttrErrorCode, 4: stun.AttrUnknownAttributes}
	m := new(stun.Message)
	_ = m.Build(stun.NewType(1, 0), stun.NewTransactionIDSetter(tid), stun.RawAttribute{Type: types[kind], Value: val})
	d := new(stun.Message)
	if err := stun.Decode(m.Raw, d); err != nil {
		return []int{0}
	}
	g := map[int]int{1: 1, 2: 2, 3: 4, 4: 5}[kind]
	res, _ := getterResult(g, int(types[kind]), nil, d)
	if res[0] != 0 {
		return []int{0}
	}
	return append([]int{1}, res[1:]...)
}

// goRFC*: a third, independent encoder in Go, used only to PRODUCE spec-valid values for cmd 603
func goXorValue(ip []byte, port int, tid []byte) []byte {
	v := []byte{0, 1, byte((port ^ 0x2112) >> 8), byte(port ^ 0x2112)}
	if len(ip) == 16 {
		v[1] = 2
	}
	pad := append([]byte{0x21, 0x12, 0xA4, 0x42}, tid...)
	for i, b := range ip {
		v = append(v, b^pad[i])
	}
	return v
}

func runC06(o *out, thorough bool, r *rng, _ []string) map[string]interface{} {
	sharedDestinationMonitor(o, r, 300)
	ips := func() []byte {
		switch r.intn(6) {
		case 0:
			return r.bytes(4)
		case 1:
			return r.bytes(16)
		case 2:
			b := make([]byte, 16)
			b[10], b[11] = 0xff, 0xff
			copy(b[12:], r.bytes(4))
			return b
		case 3:
			b := r.bytes(16)
			copy(b, make([]byte, r.intn(12)))
			return b
		default:
			// almost IPv4-mapped: ::ffff:a.b.c.d with exactly one of the first twelve bytes off
			b := make([]byte, 16)
			b[10], b[11] = 0xff, 0xff
			copy(b[12:], r.bytes(4))
			i := r.intn(12)
			if i >= 10 {
				b[i] = byte(r.intn(255)) // not 0xff
			} else {
				b[i] = byte(1 + r.intn(255)) // not 0
			}
			return b
		}
	}
	// ALL ports 0..65535 through the XOR round trip (exhaustive), random addresses and tids
	stepP := 1
	for port := 0; port < 65536; port += stepP {
		tid := r.bytes(12)
		ip := ips()
		o.run(602, []string{fHex(tid), fNums(1, port), fHex(ip)}, true)
		if port%16 == 0 || thorough {
			o.run(601, []string{fHex(tid), addrSetterField(5, 0x0020, port, ip), fNums(1, 0x0020), "-"}, true)
		}
		if port%64 == 0 {
			mt := mappedTypes[r.intn(4)]
			o.run(601, []string{fHex(tid), addrSetterField(6, mt, port, ip), fNums(2, mt), "-"}, true)
			o.run(602, []string{fHex(tid), fNums(2, port), fHex(ip)}, true)
			xt := []int{0x0012, 0x0016}[r.intn(2)] // AddToAs types used by pion/turn
			o.run(601, []string{fHex(tid), addrSetterField(5, xt, port, ip), fNums(1, xt), "-"}, true)
			// spec-encoded value read by the library
			ip2 := ips()
			if len(ip2) == 16 && bytes.Equal(ip2[:12], []byte{0, 0, 0, 0, 0, 0, 0, 0, 0, 0, 0xff, 0xff}) {
				ip2 = ip2[12:]
			}
			o.run(603, []string{fHex(tid), "1", fHex(goXorValue(ip2, port, tid))}, true)
			mv := append([]byte{0, byte(1 + len(ip2)/16), byte(port >> 8), byte(port)}, ip2...)
			o.run(603, []string{fHex(tid), "2", fHex(mv)}, true)
		}
		o.count("ports")
	}
	// IPv6 XOR addresses whose WIRE image (before un-XORing) looks like an IPv4-mapped address, and whose decoded
	// value does: read as the 16 bytes they are
	for i := 0; i < 40; i++ {
		tid := r.bytes(12)
		wire := append([]byte{0, 2, byte(r.intn(256)), byte(r.intn(256))}, append([]byte{0, 0, 0, 0, 0, 0, 0, 0, 0, 0, 0xff, 0xff}, r.bytes(4)...)...)
		o.run(603, []string{fHex(tid), "1", fHex(wire)}, true)
		mapped := append([]byte{0, 0, 0, 0, 0, 0, 0, 0, 0, 0, 0xff, 0xff}, r.bytes(4)...)
		pad := append([]byte{0x21, 0x12, 0xa4, 0x42}, tid...)
		wire2 := []byte{0, 2, byte(r.intn(256)), byte(r.intn(256))}
		for k := range mapped {
			wire2 = append(wire2, mapped[k]^pad[k])
		}
		o.run(603, []string{fHex(tid), "1", fHex(wire2)}, true)
		o.count("xor-values-that-look-ipv4-mapped")
	}
	// every address attribute type at once in one message, each with an address of its own, in random order:
	// each getter returns the value of its own attribute (command 701, decided by the model)
	for i := 0; i < 60; i++ {
		tid := r.bytes(12)
		m := new(stun.Message)
		copy(m.TransactionID[:], tid)
		m.Type = stun.NewType(1, 2)
		m.WriteHeader()
		types := []int{0x0001, 0x0002, 0x0004, 0x0005, 0x0012, 0x0016, 0x0020, 0x8020, 0x8023, 0x802b, 0x802c}
		order := r.perm(len(types))
		for _, k := range order {
			t := types[k]
			if i%3 == 2 && r.chance(1, 4) {
				continue // some absent
			}
			ip := r.bytes([]int{4, 16}[r.intn(2)])
			port := r.intn(65536)
			var v []byte
			if t == 0x0012 || t == 0x0016 || t == 0x0020 || t == 0x8020 {
				v = goXorValue(ip, port, tid)
			} else {
				v = append([]byte{0, byte(1 + len(ip)/16), byte(port >> 8), byte(port)}, ip...)
			}
			m.Add(stun.AttrType(t), v)
		}
		for _, t := range types {
			g := 2
			if t == 0x0012 || t == 0x0016 || t == 0x0020 || t == 0x8020 {
				g = 1
			}
			o.run(701, []string{fHex(m.Raw), "-", fNums(g, t), "-"}, true)
			if t == 0x0001 || t == 0x0020 {
				o.run(701, []string{fHex(m.Raw), "-", fNums(3-g, t), "-"}, true) // the other getter family on the same type
			}
		}
		o.count("all-address-attributes-in-one-message")
	}
	// text values that are themselves quoted / escaped strings: the value is the bytes, quotes and all
	for i := 0; i < 80; i++ {
		inner := string(r.bytes(r.intn(12)))
		switch i % 5 {
		case 0:
			inner = "example.org"
		case 1:
			inner = `a\nb\x41\u00e9\\`
		case 2:
			if len(litStrs) > 0 {
				inner = string(litStrs[i%len(litStrs)])
			}
		}
		q := []string{`"` + inner + `"`, "'" + inner + "'", "`" + inner + "`", `\"` + inner + `\"`, `"` + inner, "%22" + inner + "%22", "<" + inner + ">"}[i%7]
		if len(q) > 120 {
			q = q[:60] + q[len(q)-60:]
		}
		for kind := 0; kind < 4; kind++ {
			o.run(601, []string{fHex(r.bytes(12)), withBytes([]int{4, kind}, []byte(q)), fNums(3, int(textTypes[kind])), "-"}, true)
		}
		o.run(601, []string{fHex(r.bytes(12)), withBytes([]int{7, 401}, []byte(q)), fNums(4, 9), "-"}, true)
		o.count("quoted-text-values")
	}
	// UNKNOWN-ATTRIBUTES values that end in a repeated type, or are one 16-bit pattern throughout (RFC 3489 padded
	// odd lists by repeating the last type; RFC 5389 does not): every type of the value is reported
	for i := 0; i < 60; i++ {
		n := 1 + i%9
		var enc []byte
		for k := 0; k < n; k++ {
			t := r.attrType()
			if i%3 == 0 {
				t = []int{0, 0xffff, 0x0014, 0x8022}[i/3%4]
			}
			enc = append(enc, byte(t>>8), byte(t))
		}
		enc = append(enc, enc[len(enc)-2:]...) // the last type once more
		o.run(603, []string{fHex(r.bytes(12)), "4", fHex(enc)}, true)
		body := r.tlv(0x000a, enc, len(enc))
		o.run(701, []string{fHex(append(header(0x0111, len(body), r.bytes(12)), body...)), "-", fNums(5, 10), "-"}, true)
		o.count("unknown-lists-ending-in-a-repeated-type")
	}
	// what the ERROR-CODE getter hands out belongs to the caller (it is a view into the message): overwriting it
	// changes nothing about the phrases the library writes for default codes afterwards
	for _, code := range defaultCodes {
		m1 := new(stun.Message)
		if m1.Build(stun.BindingError, stun.NewTransactionIDSetter([12]byte{1}), stun.ErrorCode(code)) != nil {
			continue
		}
		d := new(stun.Message)
		var ec stun.ErrorCodeAttribute
		if stun.Decode(m1.Raw, d) != nil || ec.GetFrom(d) != nil {
			continue
		}
		for k := range ec.Reason {
			ec.Reason[k] = 'X'
		}
		ec.Reason = append(ec.Reason[:0], []byte("recycled by the caller")...)
		m2 := new(stun.Message)
		_ = m2.Build(stun.BindingError, stun.NewTransactionIDSetter([12]byte{1}), stun.ErrorCode(code))
		if !bytes.Equal(m1.Raw, m2.Raw) {
			o.fail("default-reason-changed-by-a-caller", fmt.Sprintf("x ErrorCode(%d): built %s, then a getter result was overwritten by its owner, then built %s", code, fHex(m1.Raw), fHex(m2.Raw)))
		}
		o.count("default-reason-table")
	}
	// text: every length 0..limit+1 for each text attribute
	for kind := 0; kind < 4; kind++ {
		lim := 763
		if kind == 0 {
			lim = 513
		}
		for l := 0; l <= lim+1; l++ {
			o.run(601, []string{fHex(r.bytes(12)), withBytes([]int{4, kind}, r.bytes(l)), fNums(3, int(textTypes[kind])), "-"}, true)
			o.count("text-lengths")
		}
	}
	// all codes 300..699 with any reason
	for code := 300; code <= 699; code++ {
		reason := r.bytes(r.pick([]int{0, 1, 5, 20, 100, 763}))
		tid := r.bytes(12)
		o.run(601, []string{fHex(tid), withBytes([]int{7, code}, reason), fNums(4, 9), "-"}, true)
		o.run(602, []string{fHex(tid), fNums(3, code), fHex(reason)}, true)
		o.run(603, []string{fHex(tid), "3", fHex(append([]byte{0, 0, byte(code / 100), byte(code % 100)}, reason...))}, true)
		o.count("error-codes")
	}
	// lists of 0..64 attribute types
	for n := 0; n <= 64; n++ {
		for rep := 0; rep < 4; rep++ {
			xs := make([]int, n)
			var enc []byte
			for i := range xs {
				xs[i] = r.attrType()
				enc = append(enc, byte(xs[i]>>8), byte(xs[i]))
			}
			tid := r.bytes(12)
			o.run(601, []string{fHex(tid), fNums(append([]int{9}, xs...)...), fNums(5, 10), "-"}, true)
			o.run(602, []string{fHex(tid), fNums(4, 0), fNums(xs...)}, true)
			o.run(603, []string{fHex(tid), "4", fHex(enc)}, true)
			o.count("unknown-lists")
		}
	}
	return map[string]interface{}{"exhaustive_part": "all ports 0..65535 (Spec encoder vs library bytes; every 16th through the full round trip), text lengths 0..limit+1 for the 4 text attributes, all codes 300..699, unknown-attribute lists of 0..64 types"}
}

// sharedDestinationMonitor: one destination value used for message 1 and then for message 2.  Getters that
// return views (text attributes, ERROR-CODE reason) or reuse storage must not write through the
// destination into message 1, and must deliver message 2's value.
// destinationChainMonitor: a few decoded messages whose address / text / error attributes are well formed
// or cut short, and ONE destination per getter kind reused for a random chain of calls over them (also
// through GetFromAs with the other attribute types).  After every call every message is what it was.
func destinationChainMonitor(o *out, r *rng, n int) {
	for i := 0; i < n; i++ {
		var msgs []*stun.Message
		var snaps []string
		for k := 0; k < 3; k++ {
			var body []byte
			for _, t := range []int{0x0001, 0x0020, 0x8023, 0x0004, 0x0009, 0x0006, 0x8022} {
				var v []byte
				switch r.intn(5) {
				case 0: // IPv4 address value
					v = append([]byte{0, 1, byte(r.intn(256)), byte(r.intn(256))}, r.bytes(4)...)
				case 1: // IPv6 address value
					v = append([]byte{0, 2, byte(r.intn(256)), byte(r.intn(256))}, r.bytes(16)...)
				case 2: // family says IPv6 / IPv4, the address is cut short
					v = append([]byte{0, byte(1 + r.intn(2)), 0x0d, 0x96}, r.bytes(r.intn(4))...)
				case 3:
					v = append([]byte{0, 0, byte(3 + r.intn(4)), byte(r.intn(100))}, r.bytes(r.intn(20))...)
				default:
					v = r.bytes(r.intn(24))
				}
				body = append(body, r.tlv(t, v, len(v))...)
			}
			data := append(header(0x0101, len(body), r.bytes(12)), body...)
			m := new(stun.Message)
			if stun.Decode(data, m) != nil {
				continue
			}
			msgs = append(msgs, m)
			snaps = append(snaps, fmt.Sprint(serMsg(m)))
		}
		if len(msgs) == 0 {
			continue
		}
		var ma stun.MappedAddress
		var xa stun.XORMappedAddress
		var un stun.Username
		var sw stun.Software
		var ec stun.ErrorCodeAttribute
		trace := ""
		for step := 0; step < 10; step++ {
			k := r.intn(len(msgs))
			m := msgs[k]
			t := stun.AttrType(r.pick([]int{0x0001, 0x0020, 0x8023, 0x0004}))
			kind := r.intn(5)
			trace += fmt.Sprintf(" %d:%d:%#x", kind, k, int(t))
			pan, _ := guarded(func() {
				switch kind {
				case 0:
					_ = ma.GetFromAs(m, t)
				case 1:
					_ = xa.GetFromAs(m, t)
				case 2:
					_ = un.GetFrom(m)
				case 3:
					_ = sw.GetFrom(m)
				default:
					_ = ec.GetFrom(m)
				}
			})
			if pan {
				o.failFor("C07", "getter-panic", "x chain"+trace+" on "+fHex(m.Raw))
				break
			}
			changed := -1
			for j := range msgs {
				if fmt.Sprint(serMsg(msgs[j])) != snaps[j] {
					changed = j
				}
			}
			if changed >= 0 {
				o.failFor("C07", "getter-writes-into-a-message", fmt.Sprintf("x chain (getter:message:type)%s changed message %d; messages:", trace, changed)+func() string {
					out := ""
					for _, mm := range msgs {
						out += " " + fHex(mm.Raw)
					}
					return out
				}())
				break
			}
		}
		o.count("destination-chains")
	}
}

func sharedDestinationMonitor(o *out, r *rng, n int) {
	for i := 0; i < n; i++ {
		mk := func() *stun.Message {
			m := new(stun.Message)
			reason := r.bytes(r.pick([]int{0, 3, 12, 40}))
			user := r.bytes(r.pick([]int{0, 5, 17, 60}))
			_ = m.Build(stun.BindingRequest, stun.TransactionID, stun.Username(user), stun.Realm(r.bytes(r.intn(30))),
				stun.ErrorCodeAttribute{Code: stun.ErrorCode(r.rangeIn(300, 699)), Reason: reason},
				&stun.XORMappedAddress{IP: r.bytes(r.pick([]int{4, 16})), Port: r.intn(65536)},
				stun.UnknownAttributes{stun.AttrType(r.intn(65536)), stun.AttrType(r.intn(65536))})
			d := new(stun.Message)
			_ = stun.Decode(m.Raw, d)
			return d
		}
		m1, m2 := mk(), mk()
		raw1 := append([]byte(nil), m1.Raw...)
		fresh := func(m *stun.Message) string {
			var u stun.Username
			var re stun.Realm
			var e stun.ErrorCodeAttribute
			var x stun.XORMappedAddress
			var ua stun.UnknownAttributes
			_, _, _, _, _ = u.GetFrom(m), re.GetFrom(m), e.GetFrom(m), x.GetFrom(m), ua.GetFrom(m)
			return fmt.Sprint([]byte(u), []byte(re), e.Code, e.Reason, x.IP, x.Port, ua)
		}
		want2 := fresh(m2)
		var u stun.Username
		var re stun.Realm
		var e stun.ErrorCodeAttribute
		var x stun.XORMappedAddress
		var ua stun.UnknownAttributes
		_, _, _, _, _ = u.GetFrom(m1), re.GetFrom(m1), e.GetFrom(m1), x.GetFrom(m1), ua.GetFrom(m1)
		_, _, _, _, _ = u.GetFrom(m2), re.GetFrom(m2), e.GetFrom(m2), x.GetFrom(m2), ua.GetFrom(m2)
		got2 := fmt.Sprint([]byte(u), []byte(re), e.Code, e.Reason, x.IP, x.Port, ua)
		if got2 != want2 {
			o.fail("getter-depends-on-destination", "x second message "+fHex(m2.Raw))
		}
		if !bytes.Equal(m1.Raw, raw1) {
			o.fail("getter-writes-into-earlier-message", "x first message "+fHex(raw1)+" second "+fHex(m2.Raw))
		}
		o.count("shared-destination")
	}
}
