package main

import (
	"sync"
	"fmt"
	"runtime"
	"runtime/debug"
	"strings"

	"github.com/pion/stun/v3"
)

// C20: hot paths allocate nothing in steady state (cmd 2001).
// For a previous message P and a current message C the Message / destination values are first used for P,
// their capacities observed, then the operation is run once on C between two runtime.ReadMemStats calls
// (GC off, GOMAXPROCS 1): the number of mallocs and which capacities changed are compared with the sites
// the Coq allocation model predicts from the observed capacities.  Property oracle: when P is at least
// as large as C in every dimension the operation uses, the measured number of allocations is zero.
// MemStats.Mallocs is process-wide: a scenario that shows an allocation is run again from fresh values
// (runAllocCaseStable) and the allocation counts only if it shows every time.

func init() {
	props["C20"] = runC20
	cmds[2001] = execAllocCase
}

var msA, msB runtime.MemStats

func mallocs(f func()) int {
	runtime.ReadMemStats(&msA)
	f()
	runtime.ReadMemStats(&msB)
	return int(msB.Mallocs - msA.Mallocs)
}

// mallocsStable: for an operation that leaves no capacity changed, an allocation that belongs to the
// operation repeats on every call; a stray allocation of the runtime (background sweeper, timers) does
// not.  Returns the minimum over three calls when the first one allocated.
func mallocsStable(f func()) int {
	n := mallocs(f)
	if n == 0 {
		return 0
	}
	for k := 0; k < 2; k++ {
		if m := mallocs(f); m < n {
			n = m
		}
	}
	return n
}

// strayRemeasured counts the measurements that were repeated because the first one showed an allocation
// (reported in the evidence as "remeasured-after-allocation" / "stray-allocation-did-not-repeat").
var strayRemeasured, strayVanished int

// runAllocCaseStable: runtime.MemStats.Mallocs counts the whole process, and the runtime itself allocates
// now and then (an EMPTY interval between two ReadMemStats calls shows one malloc about once in 10^5..10^6
// intervals on a loaded machine, GC off, one P: see emptyIntervalProbe).  An allocation that belongs to the
// operation is a function of the scenario (fresh Message / destination, same warm-up, same data) and shows
// again when the whole scenario is run again from fresh values; one of the runtime does not.  So a scenario
// whose "anything allocated" bit is set is run again, from scratch, up to two more times, and the observation
// without an allocation is taken if there is one.  Capacity bits are deterministic and equal in every run.
func runAllocCaseStable(op []int, prior, cur []string, priorData, curData, key []byte) (obs []int, capsUsed []int) {
	obs, capsUsed = runAllocCase(op, prior, cur, priorData, curData, key)
	if len(obs) == 0 || obs[len(obs)-1] != 1 {
		return obs, capsUsed
	}
	strayRemeasured++
	for k := 0; k < 2; k++ {
		obs2, caps2 := runAllocCase(op, prior, cur, priorData, curData, key)
		if len(obs2) == len(obs) && obs2[len(obs2)-1] == 0 {
			strayVanished++
			return obs2, caps2
		}
	}
	return obs, capsUsed
}

// emptyIntervalProbe: how many of n empty intervals between two ReadMemStats calls show an allocation
// (calibration of the measurement, reported in the evidence; nothing of pion/stun runs in the interval)
func emptyIntervalProbe(n int) int {
	stray := 0
	for i := 0; i < n; i++ {
		if mallocs(func() {}) > 0 {
			stray++
		}
	}
	return stray
}

// allocShape: the setter fields of a well-formed message (no refusals): sizes up to the attribute limits
type allocShape struct {
	fields []string
	nattrs int
}

func genShape(r *rng, maxAttrs int, big bool) allocShape {
	var fs []string
	fs = append(fs, numsField(1, r.intn(4096), r.intn(4)), withBytes([]int{2}, r.bytes(12)))
	n := r.intn(maxAttrs + 1)
	cnt := 0
	tlen := func(lim int) int {
		switch {
		case big && r.chance(1, 3):
			return lim - r.intn(3)
		case r.chance(1, 4):
			return r.intn(lim + 1)
		}
		return r.intn(24)
	}
	for i := 0; i < n; i++ {
		switch r.intn(8) {
		case 0:
			kind := r.intn(4)
			lim := 763
			if kind == 0 {
				lim = 513
			}
			fs = append(fs, withBytes([]int{4, kind}, r.bytes(tlen(lim))))
		case 1:
			fs = append(fs, withBytes([]int{5, 0x0020, r.intn(65536)}, r.bytes(r.pick([]int{4, 16}))))
		case 2:
			fs = append(fs, withBytes([]int{6, 0x0001, r.intn(65536)}, r.bytes(r.pick([]int{4, 16}))))
		case 3:
			fs = append(fs, withBytes([]int{7, r.rangeIn(300, 699)}, r.bytes(tlen(763))))
		case 4:
			k := r.intn(8)
			if r.chance(1, 4) {
				k = r.rangeIn(15, 40)
			}
			xs := []int{9}
			for j := 0; j < k; j++ {
				xs = append(xs, r.intn(65536))
			}
			fs = append(fs, numsField(xs...))
		case 5:
			fs = append(fs, withBytes([]int{3, r.pick([]int{0x8030, 0x8031, 0x0019, 0x8029})}, r.bytes(tlen(300))))
		default:
			fs = append(fs, withBytes([]int{4, r.intn(4)}, r.bytes(r.intn(40))))
		}
		cnt++
	}
	if r.chance(1, 2) {
		fs = append(fs, withBytes([]int{10}, r.bytes(r.pick([]int{0, 1, 20, 63, 64, 65, 100, 200}))))
		cnt++
	}
	if r.chance(1, 2) {
		fs = append(fs, numsField(11))
		cnt++
		if r.chance(1, 3) { // something after FINGERPRINT (legal to build, the fingerprint then does not verify)
			fs = append(fs, withBytes([]int{3, 0x8030}, r.bytes(r.intn(12))))
			cnt++
		}
	}
	return allocShape{fields: fs, nattrs: cnt}
}

func settersOf(fields []string) []stun.Setter {
	ss := make([]stun.Setter, 0, len(fields))
	for _, f := range fields {
		ss = append(ss, mkSetter(parseField(f), nil))
	}
	return ss
}

func buildBytes(fields []string) []byte {
	m := new(stun.Message)
	if err := m.Build(settersOf(fields)...); err != nil {
		return nil
	}
	return append([]byte(nil), m.Raw...)
}

type allocCase struct {
	op    []int
	extra []string // data / key / setter fields
}

// runAllocCase executes one case: returns the observation [site..., any] and whether the state was warm
// midData / midFields: a third message used between the previous and the current one (the destination then
// holds a value of another size or address family while its capacity is still the larger one)
var midData []byte
var midFields []string

func runAllocCase(op []int, prior, cur []string, priorData, curData, key []byte) (obs []int, capsUsed []int) {
	switch op[0] {
	case 1: // decode
		m := new(stun.Message)
		if len(priorData) > 0 {
			_ = stun.Decode(priorData, m)
			_ = stun.Decode(priorData, m)
		}
		if len(midData) > 0 {
			_ = stun.Decode(midData, m)
		}
		cr, ca := cap(m.Raw), cap(m.Attributes)
		var n int
		if op[1] == 0 {
			n = mallocs(func() { _ = stun.Decode(curData, m) })
		} else {
			n = mallocs(func() { _, _ = m.Write(curData) })
		}
		return []int{b2i(cap(m.Raw) != cr), b2i(cap(m.Attributes) != ca), b2i(n > 0)}, []int{cr, ca}
	case 2, 3, 4, 5, 6:
		mp, mc := new(stun.Message), new(stun.Message)
		if len(priorData) > 0 {
			_ = stun.Decode(priorData, mp)
		}
		_ = stun.Decode(curData, mc)
		mm := new(stun.Message)
		hasMid := len(midData) > 0 && stun.Decode(midData, mm) == nil
		switch op[0] {
		case 2:
			t := stun.AttrType(op[1])
			var d stun.TextAttribute
			if len(priorData) > 0 {
				_ = d.GetFromAs(mp, t)
			}
			if hasMid {
				_ = d.GetFromAs(mm, t)
			}
			c0 := cap(d)
			n := mallocsStable(func() { _ = d.GetFromAs(mc, t) })
			return []int{b2i(n > 0), b2i(n > 0)}, []int{c0} // a view into the message: the capacity changes without an allocation
		case 3:
			var a stun.XORMappedAddress
			if len(priorData) > 0 {
				_ = a.GetFrom(mp)
			}
			if hasMid {
				_ = a.GetFrom(mm)
			}
			c0 := cap(a.IP)
			n := mallocs(func() { _ = a.GetFrom(mc) })
			return []int{b2i(n > 0 || cap(a.IP) != c0), b2i(n > 0)}, []int{c0}
		case 4:
			var a stun.MappedAddress
			if len(priorData) > 0 {
				_ = a.GetFrom(mp)
			}
			if hasMid {
				_ = a.GetFrom(mm)
			}
			c0 := cap(a.IP)
			n := mallocs(func() { _ = a.GetFrom(mc) })
			return []int{b2i(n > 0 || cap(a.IP) != c0), b2i(n > 0)}, []int{c0}
		case 5:
			var e stun.ErrorCodeAttribute
			if len(priorData) > 0 {
				_ = e.GetFrom(mp)
			}
			if hasMid {
				_ = e.GetFrom(mm)
			}
			c0 := cap(e.Reason)
			n := mallocsStable(func() { _ = e.GetFrom(mc) })
			return []int{b2i(n > 0), b2i(n > 0)}, []int{c0} // Reason is a view into the message
		default:
			var u stun.UnknownAttributes
			if len(priorData) > 0 {
				_ = u.GetFrom(mp)
			}
			if hasMid {
				_ = u.GetFrom(mm)
			}
			c0 := cap(u)
			n := mallocs(func() { _ = u.GetFrom(mc) })
			return []int{b2i(n > 0 || cap(u) != c0), b2i(n > 0)}, []int{c0}
		}
	case 7, 8, 9:
		mc := new(stun.Message)
		_ = stun.Decode(curData, mc)
		var n int
		switch op[0] {
		case 7:
			_ = stun.Fingerprint.Check(mc)
			n = mallocsStable(func() { _ = stun.Fingerprint.Check(mc) })
		case 8:
			mi := stun.MessageIntegrity(key)
			// the Message was used before for the previous message: its Raw has that capacity
			mc = new(stun.Message)
			if len(priorData) > 0 {
				_ = stun.Decode(priorData, mc)
			}
			_ = stun.Decode(curData, mc)
			wk := stun.MessageIntegrity([]byte("warm"))
			wm := new(stun.Message)
			_ = stun.Decode(curData, wm)
			_ = wk.Check(wm) // the pool holds an object
			cr := cap(mc.Raw)
			n = mallocsStable(func() { _ = mi.Check(mc) })
			// site 1 (re-keying) cannot be observed separately from site 2 by capacities: report "any"
			// and let the two sites be told apart by the key length and the spare capacity in the case
			return []int{b2i(n > 0)}, []int{cr}
		default:
			n = mallocsStable(func() {
				_, _ = mc.Get(stun.AttrUsername)
				_, _ = mc.Get(stun.AttrFingerprint)
				_ = mc.Contains(stun.AttrMessageIntegrity)
			})
		}
		return []int{b2i(n > 0), b2i(n > 0)}, nil
	case 10:
		bm := new(stun.Message)
		if len(prior) > 0 {
			sp := settersOf(prior)
			_ = bm.Build(sp...)
			_ = bm.Build(sp...)
		}
		if len(midFields) > 0 {
			_ = bm.Build(settersOf(midFields)...)
		}
		sc := settersOf(cur)
		cr, ca := cap(bm.Raw), cap(bm.Attributes)
		n := mallocs(func() { _ = bm.Build(sc...) })
		rawRe, attrRe := cap(bm.Raw) != cr, cap(bm.Attributes) != ca
		// scratch site: an allocation not explained by Raw / Attributes growth; after the first Build the
		// Message is warm, so whatever a further Build allocates (repeatably) is scratch
		n2 := mallocsStable(func() { _ = bm.Build(sc...) })
		scratch := n2 > 0
		anyAlloc := n > 0 && (rawRe || attrRe || scratch)
		return []int{b2i(rawRe), b2i(attrRe), b2i(scratch), b2i(anyAlloc)}, []int{cr, ca}
	}
	return []int{9}, nil
}

// execAllocCase (replay of one case line): the line carries the observed capacities, so the warm-up is
// reconstructed by pre-sizing the Message / destination to exactly those capacities, and the operation is
// measured again.
func execAllocCase(o *out, f [][]int) []int {
	// as runAllocCaseStable: an allocation that does not show again on the same case from fresh values is the runtime's
	obs := execAllocCaseOnce(o, f)
	for k := 0; k < 2 && len(obs) > 0 && obs[len(obs)-1] == 1; k++ {
		if obs2 := execAllocCaseOnce(o, f); len(obs2) == len(obs) && obs2[len(obs2)-1] == 0 {
			return obs2
		}
	}
	return obs
}

func execAllocCaseOnce(o *out, f [][]int) []int {
	oldProcs := runtime.GOMAXPROCS(1)
	oldGC := debug.SetGCPercent(-1)
	defer func() { runtime.GOMAXPROCS(oldProcs); debug.SetGCPercent(oldGC) }()
	if len(f) < 1 || len(f[0]) < 1 {
		return []int{9}
	}
	op := f[0]
	var data []byte
	if len(f) > 1 && op[0] != 10 {
		data = bytesOf(f[1])
	}
	sized := func(capRaw, capAttrs int) *stun.Message {
		return &stun.Message{Raw: make([]byte, 0, capRaw), Attributes: make(stun.Attributes, 0, capAttrs)}
	}
	decodedMsg := func() *stun.Message {
		m := new(stun.Message)
		_ = stun.Decode(data, m)
		return m
	}
	switch op[0] {
	case 1:
		m := sized(op[1], op[2])
		if op[1] == 0 {
			m.Raw = nil
		}
		if op[2] == 0 {
			m.Attributes = nil
		}
		cr, ca := cap(m.Raw), cap(m.Attributes)
		n := mallocs(func() { _ = stun.Decode(data, m) })
		return []int{b2i(cap(m.Raw) != cr), b2i(cap(m.Attributes) != ca), b2i(n > 0)}
	case 2:
		mc := decodedMsg()
		d := make(stun.TextAttribute, 0, op[2])
		n := mallocs(func() { _ = d.GetFromAs(mc, stun.AttrType(op[1])) })
		return []int{b2i(n > 0), b2i(n > 0)}
	case 3:
		mc := decodedMsg()
		a := stun.XORMappedAddress{IP: make([]byte, 0, op[2])}
		n := mallocs(func() { _ = a.GetFrom(mc) })
		return []int{b2i(n > 0 || cap(a.IP) != op[2]), b2i(n > 0)}
	case 4:
		mc := decodedMsg()
		a := stun.MappedAddress{IP: make([]byte, 0, op[2])}
		n := mallocs(func() { _ = a.GetFrom(mc) })
		return []int{b2i(n > 0 || cap(a.IP) != op[2]), b2i(n > 0)}
	case 5:
		mc := decodedMsg()
		e := stun.ErrorCodeAttribute{Reason: make([]byte, 0, op[1])}
		n := mallocs(func() { _ = e.GetFrom(mc) })
		return []int{b2i(n > 0), b2i(n > 0)}
	case 6:
		mc := decodedMsg()
		u := make(stun.UnknownAttributes, 0, op[1])
		n := mallocs(func() { _ = u.GetFrom(mc) })
		return []int{b2i(n > 0 || cap(u) != op[1]), b2i(n > 0)}
	case 7:
		mc := decodedMsg()
		_ = stun.Fingerprint.Check(mc)
		n := mallocs(func() { _ = stun.Fingerprint.Check(mc) })
		return []int{b2i(n > 0), b2i(n > 0)}
	case 8:
		var key []byte
		if len(f) > 2 {
			key = bytesOf(f[2])
		}
		mc := sized(op[1], 64)
		_ = stun.Decode(data, mc)
		wm := decodedMsg()
		_ = stun.MessageIntegrity([]byte("warm")).Check(wm)
		mi := stun.MessageIntegrity(key)
		n := mallocs(func() { _ = mi.Check(mc) })
		return []int{b2i(n > 0)}
	case 9:
		mc := decodedMsg()
		n := mallocs(func() {
			_, _ = mc.Get(stun.AttrUsername)
			_, _ = mc.Get(stun.AttrFingerprint)
			_ = mc.Contains(stun.AttrMessageIntegrity)
		})
		return []int{b2i(n > 0), b2i(n > 0)}
	case 10:
		bm := sized(op[1], op[2])
		if op[1] == 0 {
			bm.Raw = nil
		}
		if op[2] == 0 {
			bm.Attributes = nil
		}
		ss := make([]stun.Setter, 0, len(f)-1)
		for _, sf := range f[1:] {
			ss = append(ss, mkSetter(sf, nil))
		}
		_ = new(stun.Message).Build(stun.BindingRequest, stun.MessageIntegrity("warm")) // the pool holds an object
		cr, ca := cap(bm.Raw), cap(bm.Attributes)
		n := mallocs(func() { _ = bm.Build(ss...) })
		rawRe, attrRe := cap(bm.Raw) != cr, cap(bm.Attributes) != ca
		n2 := mallocsStable(func() { _ = bm.Build(ss...) })
		scratch := n2 > 0
		return []int{b2i(rawRe), b2i(attrRe), b2i(scratch), b2i(n > 0 && (rawRe || attrRe || scratch))}
	}
	return []int{9}
}

// poolHolders is set by c18.go, which is compiled only with the verif tag (it uses the hooks into internal/hmac)
var poolHolders func(o *out)

func runC20(o *out, thorough bool, r *rng, _ []string) map[string]interface{} {
	oldProcs := runtime.GOMAXPROCS(1)
	oldGC := debug.SetGCPercent(-1)
	defer func() { runtime.GOMAXPROCS(oldProcs); debug.SetGCPercent(oldGC) }()
	n := 600
	if thorough {
		n = 8000
	}
	textTypesN := []int{0x0006, 0x0014, 0x0015, 0x8022}
	// address getters with ONE destination over three messages in a row (previous, between, current), every
	// combination of IPv4 / IPv6 / IPv4-mapped IPv6: once the destination has held 16 bytes nothing allocates
	addrOf := func(kind int) []byte {
		switch kind {
		case 0:
			return r.bytes(4)
		case 1:
			return r.bytes(16)
		default:
			return append([]byte{0, 0, 0, 0, 0, 0, 0, 0, 0, 0, 0xff, 0xff}, r.bytes(4)...)
		}
	}
	for combo := 0; combo < 27; combo++ {
		ks := []int{combo % 3, combo / 3 % 3, combo / 9}
		var datas [3][]byte
		for j, k := range ks {
			// assembled by hand: the library's setters would write an IPv4-mapped address as IPv4
			ip := addrOf(k)
			tid := r.bytes(12)
			fam := byte(1)
			if len(ip) == 16 {
				fam = 2
			}
			pad := append([]byte{0x21, 0x12, 0xa4, 0x42}, tid...)
			xv := []byte{0, fam, byte(r.intn(256)), byte(r.intn(256))}
			for q := range ip {
				xv = append(xv, ip[q]^pad[q])
			}
			mv := append([]byte{0, fam, byte(r.intn(256)), byte(r.intn(256))}, ip...)
			body := append(r.tlv(0x0020, xv, len(xv)), r.tlv(0x0001, mv, len(mv))...)
			datas[j] = append(header(0x0101, len(body), tid), body...)
		}
		if datas[0] == nil || datas[1] == nil || datas[2] == nil {
			continue
		}
		midData = datas[1]
		for _, op := range []int{3, 4} {
			runAllocCase([]int{op}, nil, nil, datas[0], datas[2], nil) // warm the pools and the runtime for this shape
			obs, caps := runAllocCaseStable([]int{op}, nil, nil, datas[0], datas[2], nil)
			needs := map[int]int{0: 4, 1: 16, 2: 16}
			if caps[0] >= needs[ks[2]] && obs[len(obs)-1] != 0 {
				o.failFor("C20", "warm-op-allocates", fmt.Sprintf("x address getter %d: destination of capacity %d, messages with address kinds %v (0 IPv4, 1 IPv6, 2 IPv4-mapped IPv6): previous %s between %s current %s", op, caps[0], ks, fHex(datas[0]), fHex(datas[1]), fHex(datas[2])))
			}
			if ks[0] != 0 && caps[0] < 16 {
				o.failFor("C20", "destination-capacity-lost", fmt.Sprintf("x address getter %d: the destination held 16 bytes and has capacity %d after reading kinds %v: previous %s between %s", op, caps[0], ks[:2], fHex(datas[0]), fHex(datas[1])))
			}
			o.count("address-getter-sequences")
		}
	}
	midData = nil
	// a decoded message re-emitted from its own Message with one attribute dropped (values are views into its own
	// buffer, everything behind the dropped one moves left): the buffer is large enough, nothing is allocated
	for i := 0; i < 60; i++ {
		data := r.validMessage(6, 24)
		m := &stun.Message{Raw: make([]byte, 0, 512)}
		if stun.Decode(data, m) != nil || len(m.Attributes) < 2 {
			continue
		}
		drop := i % len(m.Attributes)
		ss := []stun.Setter{stun.BindingSuccess, stun.NewTransactionIDSetter(m.TransactionID)}
		for k, a := range m.Attributes {
			if k != drop {
				ss = append(ss, stun.RawAttribute{Type: a.Type, Value: a.Value})
			}
		}
		_ = new(stun.Message).Build(ss[:2]...) // the runtime has seen the path
		if nal := mallocsStable(func() { _ = m.Build(ss...) }); nal > 0 {
			o.failFor("C20", "warm-op-allocates", fmt.Sprintf("x re-building a decoded message on its own Message (capacity 512) from views into its own buffer, attribute %d dropped: %d allocation(s): %s", drop, nal, fHex(data)))
		}
		o.count("rebuild-in-place")
	}
	// datagrams with bytes after the declared length (Decode tolerates them): a Message warm for such a datagram
	// decodes it again without allocating; and the cycle "decode it, add FINGERPRINT / MESSAGE-INTEGRITY (which
	// cut the trailing bytes)" allocates nothing once warm
	for i := 0; i < 40; i++ {
		msg := r.validMessage(1+r.intn(4), 12)
		data := append(append([]byte(nil), msg...), r.bytes(1+r.intn(40))...)
		m := new(stun.Message)
		if stun.Decode(data, m) != nil || stun.Decode(data, m) != nil {
			continue
		}
		every := true
		for rep := 0; rep < 3 && every; rep++ {
			every = mallocs(func() { _ = stun.Decode(data, m) }) > 0
		}
		if every {
			o.failFor("C20", "warm-op-allocates", fmt.Sprintf("x a Message warm for the datagram %s (a message followed by %d more bytes) allocates on every further Decode of it", fHex(data), len(data)-len(msg)))
		}
		key := r.bytes(16)
		cycle := func() {
			_ = stun.Decode(data, m)
			if i%2 == 0 {
				_ = stun.Fingerprint.AddTo(m)
			} else {
				_ = stun.MessageIntegrity(key).AddTo(m)
			}
		}
		cycle()
		cycle()
		every = true
		for rep := 0; rep < 3 && every; rep++ {
			every = mallocs(cycle) > 0
		}
		if every {
			o.failFor("C20", "warm-op-allocates", fmt.Sprintf("x the cycle Decode(%s) (a message followed by %d more bytes), then %s, allocates every time on a warm Message", fHex(data), len(data)-len(msg), []string{"Fingerprint.AddTo", "MessageIntegrity.AddTo"}[i%2]))
		}
		o.count("datagrams-with-trailing-bytes")
	}
	// warm for a large message; then a small one is decoded and walked with ForEach; then the large one again:
	// the attribute list has kept its capacity
	for i := 0; i < 40; i++ {
		large, small := r.validMessage(12+r.intn(6), 16), r.validMessage(1+r.intn(3), 8)
		m := new(stun.Message)
		if stun.Decode(large, m) != nil || stun.Decode(large, m) != nil || len(m.Attributes) < 8 {
			continue
		}
		every := true
		for rep := 0; rep < 3; rep++ {
			if stun.Decode(small, m) != nil || len(m.Attributes) == 0 {
				every = false
				break
			}
			_ = m.ForEach(m.Attributes[0].Type, func(*stun.Message) error { return nil })
			if mallocs(func() { _ = stun.Decode(large, m) }) == 0 {
				every = false
			}
		}
		if every {
			o.failFor("C20", "warm-op-allocates", fmt.Sprintf("x a Message warm for %s decodes %s, ForEach is called, and every Decode of the large message after that allocates", fHex(large), fHex(small)))
		}
		o.count("large-small-foreach-large")
	}
	// a Decode that FAILS among the attributes, then a well-formed one of the same shape as before it: the Message
	// is as warm as it was
	for i := 0; i < 60; i++ {
		good := r.validMessage(2+r.intn(6), 24)
		if len(good) < 28 {
			continue
		}
		damaged := append([]byte(nil), good...)
		lastOff := 20
		for off := 20; off+4 <= len(good); off += 4 + pad4(int(good[off+2])<<8|int(good[off+3])) {
			lastOff = off
		}
		damaged[lastOff+2] = 0x40 // the last attribute claims more bytes than there are
		m := new(stun.Message)
		_ = stun.Decode(good, m)
		_ = stun.Decode(good, m)
		if stun.Decode(damaged, m) == nil {
			continue
		}
		if nal := mallocsStable(func() { _ = stun.Decode(good, m) }); nal > 0 {
			o.failFor("C20", "warm-op-allocates", fmt.Sprintf("x Decode of %s into a Message that held it twice and then failed on %s: %d allocation(s)", fHex(good), fHex(damaged), nal))
		}
		o.count("decode-after-failed-decode")
	}
	for i := 0; i < n; i++ {
		if i%200 == 199 {
			runtime.GC() // bound the heap; the pools are warmed again before anything is measured
			runtime.GC()
			_ = new(stun.Message).Build(stun.BindingRequest, stun.MessageIntegrity("warm"))
		}
		// relation between previous and current use: same, previous larger in every dimension, independent, none
		rel := i % 4
		cur := genShape(r, 16, i%7 == 0)
		var prior allocShape
		switch rel {
		case 0:
			prior = cur
		case 1:
			// superset: the current setters, each value grown, plus more attributes
			prior = allocShape{fields: append([]string{}, cur.fields...), nattrs: cur.nattrs}
			extra := genShape(r, 8, true)
			ins := len(prior.fields)
			for ins > 2 && (strings.HasPrefix(prior.fields[ins-1], "11") || strings.HasPrefix(prior.fields[ins-1], "10")) {
				ins--
			}
			mid := append([]string{}, extra.fields[2:]...)
			for len(mid) > 0 && (strings.HasPrefix(mid[len(mid)-1], "11") || strings.HasPrefix(mid[len(mid)-1], "10")) {
				mid = mid[:len(mid)-1]
			}
			prior.fields = append(append(append([]string{}, prior.fields[:ins]...), mid...), prior.fields[ins:]...)
			prior.nattrs += len(mid)
		case 2:
			prior = genShape(r, 16, r.chance(1, 2))
		default:
			prior = allocShape{}
		}
		curData := buildBytes(cur.fields)
		midData, midFields = nil, nil
		if i%2 == 1 {
			mid := genShape(r, 10, false)
			if md := buildBytes(mid.fields); md != nil {
				midData, midFields = md, mid.fields
			}
		}
		var priorData []byte
		if len(prior.fields) > 0 {
			priorData = buildBytes(prior.fields)
		}
		if curData == nil || (len(prior.fields) > 0 && priorData == nil) {
			o.count("shape-refused")
			continue
		}
		warm := rel == 0 || rel == 1
		emit := func(op []int, caps []int, extra []string, obs []int, what string) {
			fields := append([]string{fNums(append(append([]int{}, op...), caps...)...)}, extra...)
			o.emit(2001, fields, obs, true)
			o.count("op:" + what)
			o.count(fmt.Sprintf("predicted-any:%d", obs[len(obs)-1]))
			if warm && obs[len(obs)-1] != 0 {
				o.failFor("C20", "warm-op-allocates", "2001 "+strings.Join(fields, " ")+" op="+what+fmt.Sprintf(" rel=%d", rel))
			}
		}
		// decode (both entry points)
		for _, entry := range []int{0, 1} {
			obs, caps := runAllocCaseStable([]int{1, entry}, nil, nil, priorData, curData, nil)
			emit([]int{1}, caps, []string{fHex(curData)}, obs, "decode")
		}
		// text getters
		t := textTypesN[r.intn(4)]
		obs, caps := runAllocCaseStable([]int{2, t}, nil, nil, priorData, curData, nil)
		emit([]int{2, t}, caps, []string{fHex(curData)}, obs, "text-getter")
		obs, caps = runAllocCaseStable([]int{3}, nil, nil, priorData, curData, nil)
		emit([]int{3, 0x0020}, caps, []string{fHex(curData)}, obs, "xor-getter")
		obs, caps = runAllocCaseStable([]int{4}, nil, nil, priorData, curData, nil)
		emit([]int{4, 0x0001}, caps, []string{fHex(curData)}, obs, "mapped-getter")
		obs, caps = runAllocCaseStable([]int{5}, nil, nil, priorData, curData, nil)
		emit([]int{5}, caps, []string{fHex(curData)}, obs, "errorcode-getter")
		obs, caps = runAllocCaseStable([]int{6}, nil, nil, priorData, curData, nil)
		emit([]int{6}, caps, []string{fHex(curData)}, obs, "unknown-getter")
		// checks and lookups: warm whatever came before
		key := r.bytes(r.pick([]int{0, 1, 20, 63, 64, 65, 100, 200, 300}))
		obs, caps = runAllocCaseStable([]int{8}, nil, nil, priorData, curData, key)
		emit([]int{8}, caps, []string{fHex(curData), fHex(key)}, obs, fmt.Sprintf("integrity-check spare=%d keylen=%d", caps[0]-len(curData), len(key)))
		wasWarm := warm
		warm = true
		obs, _ = runAllocCaseStable([]int{7}, nil, nil, nil, curData, nil)
		emit([]int{7}, nil, []string{fHex(curData)}, obs, "fingerprint-check")
		obs, _ = runAllocCaseStable([]int{9}, nil, nil, nil, curData, nil)
		emit([]int{9}, nil, []string{fHex(curData)}, obs, "get-contains")
		warm = wasWarm
		// build with prepared setters
		obs, caps = runAllocCaseStable([]int{10}, prior.fields, cur.fields, nil, nil, nil)
		maxUnknown := 0
		for _, f := range cur.fields {
			if pf := parseField(f); len(pf) > 0 && pf[0] == 9 && len(pf)-1 > maxUnknown {
				maxUnknown = len(pf) - 1
			}
		}
		emit([]int{10}, caps, cur.fields, obs, fmt.Sprintf("build maxunknown=%d", maxUnknown))
	}
	// (needs the hooks into internal/hmac: present only in the build with the verif tag)
	if poolHolders != nil {
		poolHolders(o)
	}
	// a Decode that fails among the attributes drops nothing the next Decode needs (each repetition of
	// "fail, then measure the well-formed one" would show the same allocation again)
	for i := 0; i < 40; i++ {
		good := r.validMessage(2+r.intn(6), 24)
		if len(good) < 28 {
			continue
		}
		// the length field of the last attribute runs past the message: the decoder fails AMONG the attributes
		damaged := append([]byte(nil), good...)
		last := 20
		for off := 20; off+4 <= len(good); off += 4 + pad4(int(good[off+2])<<8|int(good[off+3])) {
			last = off
		}
		damaged[last+2] = 0x40
		m := new(stun.Message)
		_ = stun.Decode(good, m)
		_ = stun.Decode(good, m)
		every := true
		for rep := 0; rep < 3; rep++ {
			if stun.Decode(damaged, m) == nil {
				every = false
				break
			}
			if mallocs(func() { _ = stun.Decode(good, m) }) == 0 {
				every = false
			}
		}
		if every {
			o.failFor("C20", "warm-op-allocates", fmt.Sprintf("x every Decode of %s that follows a failed Decode of %s into the same warm Message allocates", fHex(good), fHex(damaged)))
		}
		o.count("decode-after-failed-decode-repeated")
	}
	// many integrity checks in flight at once, each goroutine on a warm Message of its own: steady state means the
	// pool serves them all (measured over the whole process; a few allocations of the runtime are tolerated)
	runtime.GOMAXPROCS(oldProcs)
	{
		key := []byte("concurrent-key")
		workers := 4 * oldProcs
		msgs := make([]*stun.Message, workers)
		for w := range msgs {
			b := new(stun.Message)
			_ = b.Build(stun.BindingRequest, stun.NewTransactionIDSetter([12]byte{byte(w)}), stun.NewSoftware("x"), stun.MessageIntegrity(key))
			d := &stun.Message{Raw: make([]byte, 0, len(b.Raw)+64)}
			_ = stun.Decode(b.Raw, d)
			msgs[w] = d
		}
		round := func(iters int) {
			var wg sync.WaitGroup
			for w := 0; w < workers; w++ {
				wg.Add(1)
				go func(d *stun.Message) {
					defer wg.Done()
					for k := 0; k < iters; k++ {
						_ = stun.MessageIntegrity(key).Check(d)
					}
				}(msgs[w])
			}
			wg.Wait()
		}
		round(200) // warm: every P's pool slot is filled
		round(200)
		runtime.ReadMemStats(&msA)
		round(2000)
		runtime.ReadMemStats(&msB)
		total := workers * 2000
		o.countN("concurrent-integrity-checks-allocations", int(msB.Mallocs-msA.Mallocs))
		if d := msB.Mallocs - msA.Mallocs; d > uint64(workers*16+512) {
			o.failFor("C20", "warm-op-allocates", fmt.Sprintf("x %d goroutines x 2000 integrity checks on warm Messages of their own: %d allocations (steady state: about one per goroutine started)", workers, d))
		}
		o.countN("concurrent-integrity-checks", total)
	}
	runtime.GOMAXPROCS(1)
	o.countN("measurement:remeasured-after-allocation", strayRemeasured)
	o.countN("measurement:allocation-did-not-repeat-on-the-same-scenario", strayVanished)
	o.countN("measurement:empty-intervals-probed", 20000)
	o.countN("measurement:empty-intervals-with-an-allocation", emptyIntervalProbe(20000))
	return map[string]interface{}{"exhaustive": false}
}
