package main

import (
	"errors"
	"bytes"
	"fmt"
	"runtime"
	"sort"
	"strconv"
	"strings"
	"sync"
	"sync/atomic"
	"time"

	"github.com/pion/stun/v3"
)

// C14: the Agent under concurrency (cmd 1401).  2..16 goroutines issue random overlapping calls on a
// small shared ID set; handlers call back into the agent (never from Close's events); every call is
// recorded with invocation and response instants of one global counter, its return value and the events
// its handlers received.  A linearization is searched (memoised depth-first search over the sequential
// specification); the order found is then REPLAYED BY THE COQ MODEL (cmd 1401: the model runs a_step over
// the calls in that order, and checks that the order is a permutation that respects real time).

func init() {
	props["C14"] = runC14
	cmds[1401] = execLinCheck
	for _, e := range []int{5, 9} {
		stopErr(e)
	}
}

type ccall struct {
	idx      int
	tid      int
	depth    int
	op       []int
	inv, res int64
	ret      int
	evs      []agentEv
	parent   *ccall // the call whose handler made this call (nil: made by the goroutine itself)
}

type gstate struct {
	tid   int
	stack []*ccall
	r     *rng
}

func goid() int64 {
	var buf [64]byte
	n := runtime.Stack(buf[:], false)
	f := strings.Fields(string(buf[:n]))
	id, _ := strconv.ParseInt(f[1], 10, 64)
	return id
}

type scenario struct {
	a       *stun.Agent
	clock   atomic.Int64
	mu      sync.Mutex
	calls   []*ccall
	gs      sync.Map // goroutine id -> *gstate
	nids    int
	reenter bool
	script  func(s *scenario, g *gstate, ev agentEv) // scripted handler behaviour (targeted scenarios)
}

func (s *scenario) handler(h int) stun.Handler {
	return func(e stun.Event) {
		v, ok := s.gs.Load(goid())
		if !ok {
			return // cannot happen: handlers run in the calling goroutine
		}
		g := v.(*gstate)
		top := g.stack[len(g.stack)-1]
		ev := classifyEvent(h, e)
		top.evs = append(top.evs, ev)
		if g.r.chance(1, 3) {
			runtime.Gosched()
		}
		if s.script != nil {
			s.script(s, g, ev)
			return
		}
		// reentrancy: never from an event delivered by Close (the mutex is held there)
		if s.reenter && ev.kind != 3 && len(g.stack) < 3 && g.r.chance(1, 3) {
			s.doCall(g, s.randomOp(g.r, false))
		}
	}
}

func (s *scenario) randomOp(r *rng, allowClose bool) []int {
	id := 1 + r.intn(s.nids)
	switch r.intn(14) {
	case 0, 1, 2, 3:
		// (one in nine: a "never" deadline, thousands of years away)
		return []int{1, id, r.pick([]int{1, 2, 3, 4, 5, 6, 7, 8, 4000000000000000000})}
	case 4, 5, 6:
		return []int{2, id, r.pick([]int{0, 0, 0, 5, 9})}
	case 7, 8:
		return []int{3, id, r.pick([]int{0x0001, 0x0101, 0x0111, 0x0011})}
	case 9, 10:
		return []int{4, r.rangeIn(1, 9)}
	case 11:
		return []int{5, r.rangeIn(1, 3)}
	case 12:
		if allowClose && r.chance(1, 3) {
			return []int{6}
		}
		return []int{2, id, 0}
	}
	return []int{1, id, r.rangeIn(1, 8)}
}

func (s *scenario) doCall(g *gstate, op []int) {
	c := &ccall{tid: g.tid, depth: len(g.stack), op: op}
	if len(g.stack) > 0 {
		c.parent = g.stack[len(g.stack)-1]
	}
	g.stack = append(g.stack, c)
	c.inv = s.clock.Add(1)
	var err error
	switch op[0] {
	case 1:
		err = s.a.Start(agentTID(op[1]), agentDeadline(op[2]))
	case 2:
		if op[2] == 0 {
			err = s.a.Stop(agentTID(op[1]))
		} else {
			err = s.a.StopWithError(agentTID(op[1]), stopErr(op[2]))
		}
	case 3:
		pm := &stun.Message{TransactionID: agentTID(op[1])}
		if len(op) > 2 {
			pm.Type.ReadValue(uint16(op[2]))
		}
		err = s.a.Process(pm)
	case 4:
		err = s.a.Collect(agentDeadline(op[1]))
	case 5:
		err = s.a.SetHandler(s.handler(op[1]))
	case 6:
		err = s.a.Close()
	}
	c.res = s.clock.Add(1)
	c.ret = retCode(err)
	g.stack = g.stack[:len(g.stack)-1]
	s.mu.Lock()
	s.calls = append(s.calls, c)
	s.mu.Unlock()
}

// runScenario: returns the completed calls, or stuck = true with a goroutine dump
func runScenario(seed uint64, ngo, ncalls, nids int, reenter bool) ([]*ccall, bool, string) {
	s := &scenario{nids: nids, reenter: reenter}
	s.a = stun.NewAgent(s.handler(1))
	var wg sync.WaitGroup
	start := make(chan struct{})
	for t := 0; t < ngo; t++ {
		wg.Add(1)
		go func(t int) {
			defer wg.Done()
			g := &gstate{tid: t, r: newRng(seed*1000 + uint64(t))}
			s.gs.Store(goid(), g)
			<-start
			for k := 0; k < ncalls; k++ {
				s.doCall(g, s.randomOp(g.r, k >= ncalls/2))
				if g.r.chance(1, 4) {
					runtime.Gosched()
				}
			}
		}(t)
	}
	close(start)
	done := make(chan struct{})
	go func() { wg.Wait(); close(done) }()
	select {
	case <-done:
	case <-time.After(10 * time.Second):
		buf := make([]byte, 1<<20)
		n := runtime.Stack(buf, true)
		var keep []string
		for _, blk := range strings.Split(string(buf[:n]), "\n\n") {
			if strings.Contains(blk, "pion/stun/v3.(*Agent)") {
				lines := strings.Split(blk, "\n")
				if len(lines) > 7 {
					lines = lines[:7]
				}
				keep = append(keep, strings.Join(lines, " | "))
			}
		}
		return nil, true, strings.Join(keep, " || ")
	}
	// the main goroutine closes the agent at the end: one more recorded call
	g := &gstate{tid: ngo, r: newRng(seed)}
	s.gs.Store(goid(), g)
	s.doCall(g, []int{6})
	s.gs.Delete(goid())
	for i, c := range s.calls {
		c.idx = i
		sort.Slice(c.evs, func(a, b int) bool { return c.evs[a].id < c.evs[b].id })
	}
	return s.calls, false, ""
}

// ---- sequential specification (search helper only; the order it finds is validated by the Coq model) ----

type specState struct {
	tbl     map[int]int
	closed  bool
	handler int
}

func (st *specState) key() string {
	ids := make([]int, 0, len(st.tbl))
	for id := range st.tbl {
		ids = append(ids, id)
	}
	sort.Ints(ids)
	var b bytes.Buffer
	fmt.Fprintf(&b, "%v/%d/", st.closed, st.handler)
	for _, id := range ids {
		fmt.Fprintf(&b, "%d:%d,", id, st.tbl[id])
	}
	return b.String()
}

func (st *specState) clone() *specState {
	n := &specState{tbl: make(map[int]int, len(st.tbl)), closed: st.closed, handler: st.handler}
	for k, v := range st.tbl {
		n.tbl[k] = v
	}
	return n
}

// apply returns the prescribed return code and events (sorted by id)
func (st *specState) apply(op []int) (int, []agentEv) {
	if st.closed {
		return 1, nil
	}
	switch op[0] {
	case 1:
		if _, ok := st.tbl[op[1]]; ok {
			return 2, nil
		}
		st.tbl[op[1]] = op[2]
		return 0, nil
	case 2:
		if _, ok := st.tbl[op[1]]; !ok {
			return 3, nil
		}
		delete(st.tbl, op[1])
		return 0, []agentEv{{h: st.handler, id: op[1], kind: 1, err: op[2]}}
	case 3:
		delete(st.tbl, op[1])
		return 0, []agentEv{{h: st.handler, id: op[1], kind: 4}}
	case 4:
		var evs []agentEv
		for id, d := range st.tbl {
			if d < op[1] {
				evs = append(evs, agentEv{h: st.handler, id: id, kind: 2})
			}
		}
		for _, e := range evs {
			delete(st.tbl, e.id)
		}
		sort.Slice(evs, func(a, b int) bool { return evs[a].id < evs[b].id })
		return 0, evs
	case 5:
		st.handler = op[1]
		return 0, nil
	case 6:
		var evs []agentEv
		for id := range st.tbl {
			evs = append(evs, agentEv{h: st.handler, id: id, kind: 3})
		}
		sort.Slice(evs, func(a, b int) bool { return evs[a].id < evs[b].id })
		st.tbl = map[int]int{}
		st.closed = true
		st.handler = 0
		return 0, evs
	}
	return 9, nil
}

func sameEvs(a, b []agentEv) bool {
	if len(a) != len(b) {
		return false
	}
	for i := range a {
		if a[i] != b[i] {
			return false
		}
	}
	return true
}

// findLinearization: memoised DFS (Wing & Gong with the Lowe cache)
// searchBudget bounds the memo table of one search: a history on which it is exhausted is counted and
// skipped (nothing is claimed about it), never reported
const searchBudget = 3000000

func findLinearization(calls []*ccall) ([]int, bool) {
	exhausted := false
	n := len(calls)
	done := make([]bool, n)
	order := make([]int, 0, n)
	seen := map[string]bool{}
	bits := make([]byte, (n+7)/8)
	keyOf := func(st *specState) string {
		for i := range bits {
			bits[i] = 0
		}
		for i, d := range done {
			if d {
				bits[i/8] |= 1 << uint(i%8)
			}
		}
		return string(bits) + st.key()
	}
	var dfs func(st *specState) bool
	dfs = func(st *specState) bool {
		if len(order) == n {
			return true
		}
		k := keyOf(st)
		if seen[k] {
			return false
		}
		if len(seen) >= searchBudget {
			exhausted = true
			return false
		}
		seen[k] = true
		// minimal calls: no undone call returned before this one was invoked
		minRes := int64(1 << 62)
		for i, c := range calls {
			if !done[i] && c.res < minRes {
				minRes = c.res
			}
		}
		for i, c := range calls {
			if done[i] || c.inv > minRes {
				continue
			}
			if c.parent != nil && !done[c.parent.idx] {
				continue // a handler runs only after the critical section of its call
			}
			ns := st.clone()
			ret, evs := ns.apply(c.op)
			if ret != c.ret || !sameEvs(evs, c.evs) {
				continue
			}
			done[i] = true
			order = append(order, i)
			if dfs(ns) {
				return true
			}
			order = order[:len(order)-1]
			done[i] = false
		}
		return false
	}
	if dfs(&specState{tbl: map[int]int{}, handler: 1}) {
		return order, false
	}
	return nil, exhausted
}

// one call on a case line: inv, res, |op|, op..., then the observation: ret, number of events, events
func callField(c *ccall) string {
	par := 0
	if c.parent != nil {
		par = c.parent.idx + 1
	}
	f := append([]int{int(c.inv), int(c.res), par, len(c.op)}, c.op...)
	f = append(f, c.ret, len(c.evs))
	for _, e := range c.evs {
		f = append(f, e.h, e.id, e.kind, e.err)
	}
	return fNums(f...)
}

func obsOf(calls []*ccall, order []int) []int {
	obs := []int{1, 1, 1}
	for _, i := range order {
		c := calls[i]
		obs = append(obs, c.ret, len(c.evs))
		for _, e := range c.evs {
			obs = append(obs, e.h, e.id, e.kind, e.err)
		}
	}
	return obs
}

// execLinCheck (replay of a recorded history): fields = witness order, then one field per call (see
// callField).  A recorded concurrent history cannot be re-executed deterministically: the replay echoes
// the recorded observation in the witness order and the model recomputes it, which re-validates the
// recorded history against the model; the scenario itself is re-run from its seed by the check.
func execLinCheck(o *out, f [][]int) []int {
	if len(f) < 1 {
		return []int{9}
	}
	obs := []int{1, 1, 1}
	for _, i := range f[0] {
		if i+1 >= len(f) || len(f[i+1]) < 4 {
			return []int{9}
		}
		c := f[i+1]
		obs = append(obs, c[4+c[3]:]...)
	}
	return obs
}

func runC14(o *out, thorough bool, r *rng, _ []string) map[string]interface{} {
	n := 1500
	if thorough {
		n = 12000
	}
	type job struct {
		seed              uint64
		ngo, ncalls, nids int
		reenter           bool
	}
	jobs := make([]job, n)
	for i := range jobs {
		jobs[i] = job{seed: r.u64() % (1 << 40), ngo: r.rangeIn(2, 16), ncalls: r.rangeIn(2, 6), nids: r.rangeIn(1, 4), reenter: r.chance(2, 3)}
	}
	type result struct {
		calls     []*ccall
		stuck     bool
		dump      string
		order     []int
		skipped   bool
		exhausted bool
	}
	results := make([]result, n)
	var stuckCount atomic.Int32 // after 3 blocked scenarios the rest are skipped: each costs the watchdog delay
	// scenarios run 4 at a time so that goroutines of one scenario really overlap on the 16 cores
	sem := make(chan struct{}, 4)
	var wg sync.WaitGroup
	for i := range jobs {
		wg.Add(1)
		sem <- struct{}{}
		go func(i int) {
			defer wg.Done()
			defer func() { <-sem }()
			j := jobs[i]
			if stuckCount.Load() >= 3 {
				results[i] = result{skipped: true}
				return
			}
			calls, stuck, dump := runScenario(j.seed, j.ngo, j.ncalls, j.nids, j.reenter)
			if stuck {
				stuckCount.Add(1)
			}
			res := result{calls: calls, stuck: stuck, dump: dump}
			if !stuck {
				res.order, res.exhausted = findLinearization(calls)
			}
			results[i] = res
		}(i)
	}
	wg.Wait()
	overlaps, nested, total := 0, 0, 0
	for i, res := range results {
		j := jobs[i]
		desc := fmt.Sprintf("seed=%d goroutines=%d calls=%d ids=%d reenter=%v", j.seed, j.ngo, j.ncalls, j.nids, j.reenter)
		if res.skipped {
			o.count("scenarios:skipped-after-3-blocked")
			continue
		}
		if res.exhausted {
			o.count("scenarios:search-budget-exhausted (skipped, nothing claimed)")
			continue
		}
		if res.stuck {
			o.failFor("C14", "stuck-goroutines", desc+" blocked: "+res.dump)
			o.count("scenarios:stuck")
			continue
		}
		calls := res.calls
		total += len(calls)
		for _, c := range calls {
			if c.depth > 0 {
				nested++
			}
		}
		// how concurrent was it: number of pairs overlapping in time
		for a := 0; a < len(calls); a++ {
			for b := a + 1; b < len(calls); b++ {
				if calls[a].tid != calls[b].tid && calls[a].inv < calls[b].res && calls[b].inv < calls[a].res {
					overlaps++
				}
			}
		}
		order := res.order
		fields := make([]string, 0, len(calls)+1)
		if order == nil {
			// no sequential order explains the observations: report, and emit in invocation order so that
			// the model shows where a sequential run departs
			order = make([]int, len(calls))
			for k := range order {
				order[k] = k
			}
			sort.Slice(order, func(a, b int) bool { return calls[order[a]].inv < calls[order[b]].inv })
			var hs []string
			for _, k := range order {
				c := calls[k]
				hs = append(hs, fmt.Sprintf("g%d[%d,%d]%v=>%d%v", c.tid, c.inv, c.res, c.op, c.ret, c.evs))
			}
			o.failFor("C14", "not-linearizable", desc+" history: "+strings.Join(hs, " "))
			o.count("scenarios:not-linearizable")
		} else {
			o.count("scenarios:linearizable")
		}
		fields = append(fields, fNums(order...))
		for _, c := range calls {
			fields = append(fields, callField(c))
		}
		o.emit(1401, fields, obsOf(calls, order), true)
		o.count(fmt.Sprintf("goroutines:%02d", j.ngo))
	}
	scriptedAgentScenarios(o, "C14")
	o.countN("calls", total)
	o.countN("nested-calls-from-handlers", nested)
	o.countN("overlapping-call-pairs", overlaps)
	return map[string]interface{}{"exhaustive": false}
}

// ---- scripted scenarios: reentrant and overlapping Collects, more than a hundred expirations ----

// emitHistory searches a linearization of the recorded calls, reports a history that has none, and emits
// the case for the model
func emitHistory(o *out, prop, desc string, calls []*ccall) {
	for i, c := range calls {
		c.idx = i
		sort.Slice(c.evs, func(a, b int) bool { return c.evs[a].id < c.evs[b].id })
	}
	order, exhausted := findLinearization(calls)
	if exhausted {
		o.count("scenarios:search-budget-exhausted (skipped, nothing claimed)")
		return
	}
	if order == nil {
		order = make([]int, len(calls))
		for k := range order {
			order[k] = k
		}
		sort.Slice(order, func(a, b int) bool { return calls[order[a]].inv < calls[order[b]].inv })
		var hs []string
		for _, k := range order {
			c := calls[k]
			if len(hs) < 40 {
				hs = append(hs, fmt.Sprintf("g%d[%d,%d]%v=>%d%v", c.tid, c.inv, c.res, c.op, c.ret, c.evs))
			}
		}
		o.failFor(prop, "not-linearizable", desc+" history: "+strings.Join(hs, " "))
	}
	fields := []string{fNums(order...)}
	for _, c := range calls {
		fields = append(fields, callField(c))
	}
	o.emit(1401, fields, obsOf(calls, order), true)
	o.count("scripted:" + strings.Fields(desc)[0])
}

func scriptedAgentScenarios(o *out, prop string) {
	// every scenario runs on a goroutine of its own and is given 10 s: a call that never returns (a handler
	// calling back into an agent that still holds its mutex) is reported and the next scenario starts
	stuck := 0
	bounded := func(name string, f func()) {
		if stuck >= 3 {
			return
		}
		done := make(chan struct{})
		go func() { defer close(done); f() }()
		select {
		case <-done:
		case <-time.After(10 * time.Second):
			stuck++
			o.failFor(prop, "agent-call-does-not-return", "x scripted scenario "+name+": a call into the agent (or from one of its handlers) has not returned after 10 s")
		}
	}
	newScenario := func() (*scenario, *gstate) {
		s := &scenario{nids: 4}
		s.a = stun.NewAgent(s.handler(1))
		g := &gstate{tid: 0, r: newRng(1)}
		s.gs.Store(goid(), g)
		return s, g
	}
	// (a) a timeout handler registers two more expired transactions and collects them itself
	for rep := 0; rep < 3; rep++ {
		rep := rep
		bounded("reentrant-collect", func() {
		s, g := newScenario()
		fired := false
		s.script = func(s *scenario, g *gstate, ev agentEv) {
			if ev.kind == 2 && !fired {
				fired = true
				s.doCall(g, []int{1, 3, 1})
				s.doCall(g, []int{1, 4, 1})
				s.doCall(g, []int{4, 5})
			}
		}
		for _, op := range [][]int{{1, 1, 1}, {1, 2, 1}, {4, 5 + rep}, {4, 9}, {2, 3, 0}, {6}} {
			s.doCall(g, op)
		}
		s.gs.Delete(goid())
		emitHistory(o, prop, "reentrant-collect", s.calls)
		})
	}
	// (b) a hundred and more expirations in one Collect; the first handler registers a late, already expired
	// transaction: the Collect that is running must not time it out (its critical section is over)
	ks := []int{99, 100, 101, 130}
	for _, n := range litIntsIn(8, 1200, 6) {
		ks = append(ks, n-1, n, n+1)
	}
	for _, k := range ks {
		k := k
		bounded("mass-expiry-with-late-start", func() {
		s, g := newScenario()
		fired := false
		s.script = func(s *scenario, g *gstate, ev agentEv) {
			if ev.kind == 2 && !fired {
				fired = true
				s.doCall(g, []int{1, 999, 1})
			}
		}
		for id := 1; id <= k; id++ {
			s.doCall(g, []int{1, id, 1})
		}
		for _, op := range [][]int{{4, 5}, {2, 999, 0}, {4, 9}, {6}} {
			s.doCall(g, op)
		}
		s.gs.Delete(goid())
		emitHistory(o, prop, fmt.Sprintf("mass-expiry-with-late-start k=%d", k), s.calls)
		})
	}
	// (c) after a Collect of more than a hundred, two Collects overlap: the first is held in its first
	// handler call while a second one, in another goroutine, collects other transactions
	for rep := 0; rep < 3; rep++ {
		bounded("overlapping-collects-after-mass-collect", func() {
		s, g := newScenario()
		for id := 1; id <= 120; id++ {
			s.doCall(g, []int{1, id, 1})
		}
		s.doCall(g, []int{4, 5}) // grows whatever buffer Collect keeps
		for _, id := range []int{201, 202, 203} {
			s.doCall(g, []int{1, id, 10})
		}
		hold, resume := make(chan struct{}), make(chan struct{})
		held := false
		var hmu sync.Mutex
		s.script = func(s *scenario, g *gstate, ev agentEv) {
			hmu.Lock()
			first := ev.kind == 2 && !held && g.tid == 0
			if first {
				held = true
			}
			hmu.Unlock()
			if first {
				close(hold)
				<-resume
			}
		}
		done := make(chan struct{})
		go func() {
			g2 := &gstate{tid: 1, r: newRng(2)}
			s.gs.Store(goid(), g2)
			<-hold
			for _, id := range []int{301, 302, 303} {
				s.doCall(g2, []int{1, id, 10})
			}
			s.doCall(g2, []int{4, 20})
			s.gs.Delete(goid())
			close(resume)
			close(done)
		}()
		s.doCall(g, []int{4, 15}) // collects 201..203; held in the first handler call
		<-done
		s.doCall(g, []int{6})
		s.gs.Delete(goid())
		emitHistory(o, prop, "overlapping-collects-after-mass-collect", s.calls)
		})
	}
	// (e) Close called from the handler of the first of several timeouts of one Collect (the mutex is free
	// then): the other timeouts of that Collect are still delivered, nothing is left without its event
	for _, k := range []int{2, 3, 7} {
		k := k
		bounded("close-from-timeout-handler", func() {
			s, g := newScenario()
			fired := false
			s.script = func(s *scenario, g *gstate, ev agentEv) {
				if ev.kind == 2 && !fired {
					fired = true
					s.doCall(g, []int{6})
				}
			}
			for id := 1; id <= k; id++ {
				s.doCall(g, []int{1, id, 1})
			}
			s.doCall(g, []int{1, 50, 100}) // not expired: closed by the Close
			for _, op := range [][]int{{4, 5}, {1, 60, 9}, {6}} {
				s.doCall(g, op)
			}
			s.gs.Delete(goid())
			emitHistory(o, prop, fmt.Sprintf("close-from-timeout-handler k=%d", k), s.calls)
		})
	}
	// (f) while Close is delivering its events (a handler that takes its time), another goroutine starts a new
	// transaction and stops a pending one: the agent is closed for them
	for rep := 0; rep < 4; rep++ {
		bounded("calls-during-close-delivery", func() {
			s, g := newScenario()
			for id := 1; id <= 3; id++ {
				s.doCall(g, []int{1, id, 100})
			}
			hold := make(chan struct{})
			var once sync.Once
			s.script = func(s *scenario, g *gstate, ev agentEv) {
				if ev.kind == 3 {
					once.Do(func() { close(hold) })
					time.Sleep(20 * time.Millisecond)
				}
			}
			done := make(chan struct{})
			go func() {
				g2 := &gstate{tid: 1, r: newRng(3)}
				s.gs.Store(goid(), g2)
				<-hold
				s.doCall(g2, []int{1, 77, 100})
				s.doCall(g2, []int{2, 3, 0})
				s.doCall(g2, []int{3, 2, 0x0101})
				s.gs.Delete(goid())
				close(done)
			}()
			s.doCall(g, []int{6})
			select {
			case <-done:
			case <-time.After(5 * time.Second):
			}
			s.doCall(g, []int{6})
			s.gs.Delete(goid())
			emitHistory(o, prop, "calls-during-close-delivery", s.calls)
		})
	}
	// (g) Stop and Close released at the same instant on a fresh agent with one transaction (whose handler takes a
	// moment): Stop either wins (nil, and its event) or finds the agent closed; "no such transaction" is no answer
	{
		odd := ""
		for round := 0; round < 1500 && odd == ""; round++ {
			var mu sync.Mutex
			events := 0
			a := stun.NewAgent(func(e stun.Event) {
				mu.Lock()
				events++
				mu.Unlock()
				time.Sleep(20 * time.Microsecond)
			})
			id := agentTID(1 + round%50)
			_ = a.Start(id, agentBase.Add(time.Hour))
			_ = a.Start(agentTID(60), agentBase.Add(time.Hour))
			start := make(chan struct{})
			var serr, cerr error
			var wg sync.WaitGroup
			wg.Add(2)
			go func() { defer wg.Done(); <-start; serr = a.Stop(id) }()
			go func() { defer wg.Done(); <-start; cerr = a.Close() }()
			close(start)
			wg.Wait()
			mu.Lock()
			n := events
			mu.Unlock()
			if cerr != nil || !(serr == nil || errors.Is(serr, stun.ErrAgentClosed)) || n != 2 {
				odd = fmt.Sprintf("x round %d: Stop returned %v, Close returned %v, %d terminal events for 2 transactions", round, serr, cerr, n)
			}
		}
		if odd != "" {
			o.failFor(prop, "not-linearizable", odd+" (Stop and Close released together: Stop must return nil or ErrAgentClosed, each transaction gets one event)")
		}
		o.count("stop-racing-close")
	}
	// (h) Collect is ONE step also when the table is large (the walk takes milliseconds): two expired
	// transactions are started one after the other while a Collect walks 150000 live ones; a Collect that
	// times out the LATER one has also seen the earlier one
	{
		var mu sync.Mutex
		timedOut := map[[stun.TransactionIDSize]byte]int{}
		collectNo := 0
		a := stun.NewAgent(func(e stun.Event) {
			if e.TransactionID[11] == 0x5B && errors.Is(e.Error, stun.ErrTransactionTimeOut) {
				mu.Lock()
				timedOut[e.TransactionID] = collectNo
				mu.Unlock()
			}
		})
		for k := 0; k < 150000; k++ {
			var t [stun.TransactionIDSize]byte
			t[0], t[1], t[2], t[5], t[11] = byte(k), byte(k>>8), byte(k>>16), byte(k*7), 0x5C
			_ = a.Start(t, agentBase.Add(2*time.Hour))
		}
		odd := ""
		for round := 0; round < 80 && odd == ""; round++ {
			var ta, tb [stun.TransactionIDSize]byte
			ta[0], ta[1], ta[2], ta[11] = byte(round*37), byte(round), 1, 0x5B
			tb[0], tb[1], tb[2], tb[11] = byte(round*37+15-round%16*2), byte(round), 2, 0x5B
			for i := 3; i < 11; i++ {
				ta[i], tb[i] = byte(round*i), byte(255-round*i)
			}
			now := agentBase.Add(time.Hour)
			start := make(chan struct{})
			var wg sync.WaitGroup
			wg.Add(2)
			mu.Lock()
			collectNo = 2*round + 1
			mu.Unlock()
			go func() { defer wg.Done(); <-start; _ = a.Collect(now) }()
			go func() {
				defer wg.Done()
				<-start
				time.Sleep(time.Duration(round%10) * 100 * time.Microsecond)
				_ = a.Start(ta, agentBase)
				_ = a.Start(tb, agentBase)
			}()
			close(start)
			wg.Wait()
			mu.Lock()
			collectNo = 2*round + 2
			mu.Unlock()
			_ = a.Collect(now)
			mu.Lock()
			ca, cb := timedOut[ta], timedOut[tb]
			mu.Unlock()
			if ca == 0 || cb == 0 || cb < ca {
				odd = fmt.Sprintf("x round %d: Start(A) returned before Start(B) was called, both already expired, during a Collect over 150000 transactions; A timed out in Collect #%d, B in Collect #%d (0 = never)", round, ca, cb)
			}
		}
		if odd != "" {
			o.failFor(prop, "not-linearizable", odd+" (no order of atomic steps explains a Collect that saw the later Start and not the earlier one)")
		}
		_ = a.Close()
		o.count("starts-during-large-collect")
	}
	// (d) the handler of a transaction's terminal event (a response, a stop, a timeout) registers the same ID
	// again: the transaction is already gone, so that Start succeeds and the new transaction stays
	for _, term := range [][]int{{3, 1, 0x0101}, {2, 1, 0}, {2, 1, 7}, {4, 5}} {
		term := term
		bounded("handler-restarts-same-id", func() {
		s, g := newScenario()
		fired := false
		s.script = func(s *scenario, g *gstate, ev agentEv) {
			if !fired && ev.id == 1 {
				fired = true
				s.doCall(g, []int{1, 1, 50})
			}
		}
		for _, op := range [][]int{{1, 1, 1}, {1, 2, 1}, term, {1, 1, 60}, {4, 9}, {3, 1, 0x0101}, {6}} {
			s.doCall(g, op)
		}
		s.gs.Delete(goid())
		emitHistory(o, prop, fmt.Sprintf("handler-restarts-same-id after op %v", term), s.calls)
		})
	}
}
