//go:build verif

package main

import (
	"bytes"
	"crypto/hmac"
	"crypto/sha1"
	"crypto/sha256"
	"fmt"
	"hash"
	"runtime"
	"strings"
	"sync"
	"sync/atomic"

	"github.com/pion/stun/v3"
)

// C18: pooled HMAC histories (cmd 1801). The implementation is compared with the Coq model
// (correspondence) AND with Go's independent crypto/hmac (oracle B, in Go).
func init() {
	props["C18"] = runC18
	cmds[1801] = execHmacHistory
	poolHolders = poolHoldersImpl
}

// poolHoldersImpl (C20): sixty-four pooled HMAC states held at the same time (as sixty-four checks in flight hold
// them), given back, and taken again: the second time the pool serves every one of them
func poolHoldersImpl(o *out) {
	for _, algo := range []int{1, 2} {
		al := algoOf(algo)
		key := []byte("k")
		held := make([]hash.Hash, 64)
		cycle := func() {
			for k := range held {
				held[k] = al.acquire(key)
			}
			for k := range held {
				al.put(held[k])
			}
		}
		cycle()
		cycle()
		if nal := mallocs(cycle); nal > 8 {
			o.failFor("C20", "warm-op-allocates", fmt.Sprintf("x 64 pooled HMAC states (algorithm %d) acquired together, returned, acquired again: %d allocation(s) the second time", algo, nal))
		}
		o.count("pool-serves-many-holders")
	}
}

type hmacAlgo struct {
	acquire func([]byte) hash.Hash
	put     func(hash.Hash)
	std     func() hash.Hash
}

func algoOf(a int) hmacAlgo {
	if a == 1 {
		return hmacAlgo{stun.VerifAcquireSHA1, stun.VerifPutSHA1, sha1.New}
	}
	return hmacAlgo{stun.VerifAcquireSHA256, stun.VerifPutSHA256, sha256.New}
}

func execHmacHistory(o *out, f [][]int) []int {
	al := algoOf(f[0][0])
	var h hash.Hash
	var key, written []byte
	var obs []int
	line := func() string {
		parts := make([]string, len(f))
		for i, x := range f {
			parts[i] = fNums(x...)
		}
		return "1801 " + strings.Join(parts, " ")
	}
	pan, _ := guarded(func() {
		for _, op := range f[1:] {
			switch op[0] {
			case 1:
				if h != nil {
					al.put(h)
				}
				key = bytesOf(op[1:])
				// the key is handed over as the front of a larger buffer whose tail belongs to the caller (a record
				// buffer holding key and message back to back): nothing behind the key is touched
				kb := make([]byte, len(key)+96)
				copy(kb, key)
				for k := len(key); k < len(kb); k++ {
					kb[k] = 0xC3
				}
				h = al.acquire(kb[:len(key)])
				for k := len(key); k < len(kb); k++ {
					if kb[k] != 0xC3 {
						o.fail("acquire-writes-behind-the-key", line())
						break
					}
				}
				written = nil
			case 2:
				p := bytesOf(op[1:])
				n, err := h.Write(p)
				if n != len(p) || err != nil {
					o.fail("hmac-write", line())
				}
				written = append(written, p...)
			case 3:
				pre := bytesOf(op[1:])
				sum := h.Sum(append([]byte(nil), pre...))
				obs = append(obs, len(sum))
				obs = append(obs, intsOf(sum)...)
				ref := hmac.New(al.std, key)
				ref.Write(written)
				want := ref.Sum(append([]byte(nil), pre...))
				if !bytes.Equal(sum, want) {
					o.fail("hmac-differs-from-crypto/hmac", line())
				}
				// the caller owns what Sum returned: scribbling over it (up to its capacity) changes nothing that
				// a later Sum, Write or Reset of this object sees
				sum = sum[:cap(sum)]
				for k := range sum {
					sum[k] ^= 0xA5
				}
			case 4:
				h.Reset()
				written = nil
			case 5:
				if h != nil {
					al.put(h)
					h = nil
				}
			}
		}
		if h != nil {
			al.put(h)
		}
	})
	if pan {
		obs = append(obs, 2)
	}
	return obs
}

func (r *rng) hmacKey() []byte {
	if lens := litIntsIn(1, 600, 40); len(lens) > 0 && r.chance(1, 6) {
		n := lens[r.intn(len(lens))] + r.pick([]int{-1, 0, 1}) // a number of the library's source as the key length
		if n < 0 {
			n = 0
		}
		return r.bytes(n)
	}
	switch r.intn(6) {
	case 0:
		return r.bytes(r.pick([]int{0, 1, 20, 63, 64, 65, 128, 129, 200, 300}))
	case 1:
		return r.bytes(r.rangeIn(60, 70))
	default:
		return r.bytes(r.intn(301))
	}
}

func genHmacHistory(r *rng, maxMsg int) []string {
	algo := 1
	if r.chance(1, 3) {
		algo = 256
	}
	fs := []string{fNums(algo)}
	nacq := r.rangeIn(1, 4)
	for a := 0; a < nacq; a++ {
		fs = append(fs, withBytes([]int{1}, r.hmacKey()))
		nops := r.rangeIn(1, 8)
		for k := 0; k < nops; k++ {
			switch r.intn(6) {
			case 0, 1, 2:
				l := r.intn(maxMsg + 1)
				if r.chance(1, 3) {
					l = r.pick([]int{0, 1, 55, 56, 63, 64, 65, 119, 120, 128})
				}
				if lens := litIntsIn(1, 1500, 40); len(lens) > 0 && r.chance(1, 6) {
					l = lens[r.intn(len(lens))] + r.pick([]int{-1, 0, 1})
				}
				fs = append(fs, withBytes([]int{2}, r.bytes(l)))
			case 3, 4:
				fs = append(fs, withBytes([]int{3}, r.bytes(r.pick([]int{0, 0, 0, 3, 20}))))
			default:
				fs = append(fs, "4")
			}
		}
		// every history ends its acquisition with a Sum so that the state is observed
		fs = append(fs, withBytes([]int{3}, nil))
		if r.chance(3, 4) {
			if r.chance(1, 3) {
				fs = append(fs, "4") // Reset before Put: the marshaled fast path is live when recycled
			}
			fs = append(fs, "5")
		}
	}
	return fs
}

func runC18(o *out, thorough bool, r *rng, _ []string) map[string]interface{} {
	n := 700
	if thorough {
		n = 8000
	}
	for i := 0; i < n; i++ {
		maxMsg := 200
		if i%10 == 0 {
			maxMsg = 1200
		}
		fs := genHmacHistory(r, maxMsg)
		o.run(1801, fs, true)
		o.countN("ops", len(fs)-1)
	}
	// pool hygiene across the library's own use: after MESSAGE-INTEGRITY computations (which take an object
	// from the pool and give it back) two simultaneously held objects are distinct and both are right
	for i := 0; i < 200; i++ {
		m := stun.New()
		_ = m.Build(stun.BindingRequest, stun.TransactionID, stun.MessageIntegrity(r.hmacKey()))
		_ = stun.MessageIntegrity(r.hmacKey()).Check(m)
		k1, k2 := r.hmacKey(), r.hmacKey()
		h1, h2 := stun.VerifAcquireSHA1(k1), stun.VerifAcquireSHA1(k2)
		r1, r2 := hmac.New(sha1.New, k1), hmac.New(sha1.New, k2)
		for k := 0; k < 3; k++ {
			p1, p2 := r.bytes(r.intn(100)), r.bytes(r.intn(100))
			h1.Write(p1)
			r1.Write(p1)
			h2.Write(p2)
			r2.Write(p2)
		}
		if !bytes.Equal(h1.Sum(nil), r1.Sum(nil)) || !bytes.Equal(h2.Sum(nil), r2.Sum(nil)) {
			o.fail("pool-handed-out-object-in-use", fmt.Sprintf("x after MESSAGE-INTEGRITY AddTo/Check, keys %s %s", fHex(k1), fHex(k2)))
		}
		stun.VerifPutSHA1(h1)
		stun.VerifPutSHA1(h2)
		o.count("pool-hygiene")
	}
	// MESSAGE-INTEGRITY over a Message whose bytes 4..8 are not the magic cookie (a hand-built or RFC 3489-style
	// header): still plain HMAC-SHA1 over the text
	for i := 0; i < 60; i++ {
		key := r.hmacKey()
		m := stun.New()
		_ = m.Build(stun.BindingRequest, stun.TransactionID, stun.NewSoftware(string(r.bytes(r.intn(70)))))
		copy(m.Raw[4:8], r.bytes(4))
		if err := stun.MessageIntegrity(key).AddTo(m); err != nil {
			continue
		}
		off := len(m.Raw) - 24
		text := append([]byte(nil), m.Raw[:off]...)
		ref := hmac.New(sha1.New, key)
		ref.Write(text)
		if !bytes.Equal(ref.Sum(nil), m.Raw[off+4:]) {
			o.fail("hmac-differs-from-crypto/hmac", fmt.Sprintf("x MESSAGE-INTEGRITY added to a message whose header cookie is %x: %s key %s", m.Raw[4:8], fHex(m.Raw), fHex(key)))
		}
		o.count("integrity-without-magic-cookie")
	}
	// a state handed to the wrong pool is refused (the library panics); whatever the caller does about that
	// panic, the pools keep handing out states of their own algorithm
	for i := 0; i < 10; i++ {
		h256 := stun.VerifAcquireSHA256([]byte("k"))
		guarded(func() { stun.VerifPutSHA1(h256) })
		h1 := stun.VerifAcquireSHA1([]byte("k"))
		guarded(func() { stun.VerifPutSHA256(h1) })
		for k := 0; k < 4; k++ {
			key := r.hmacKey()
			a, b := stun.VerifAcquireSHA1(key), stun.VerifAcquireSHA256(key)
			msg := r.bytes(r.intn(100))
			a.Write(msg)
			b.Write(msg)
			ra, rb := hmac.New(sha1.New, key), hmac.New(sha256.New, key)
			ra.Write(msg)
			rb.Write(msg)
			if a.Size() != 20 || b.Size() != 32 || !bytes.Equal(a.Sum(nil), ra.Sum(nil)) || !bytes.Equal(b.Sum(nil), rb.Sum(nil)) {
				o.fail("pool-hands-out-the-other-algorithm", fmt.Sprintf("x after a state was offered to the wrong pool (and refused): AcquireSHA1 gives size %d, AcquireSHA256 size %d", a.Size(), b.Size()))
			}
			stun.VerifPutSHA1(a)
			stun.VerifPutSHA256(b)
		}
		o.count("wrong-pool-put")
	}
	// the key buffer belongs to the caller: overwritten in place between two uses of the same pooled object
	for i := 0; i < 200; i++ {
		kb := r.hmacKey()
		if len(kb) == 0 {
			kb = []byte{1}
		}
		for round := 0; round < 3; round++ {
			for k := range kb {
				kb[k] = byte(r.intn(256)) // same slice, same length, new key
			}
			msg := r.bytes(r.intn(200))
			h := stun.VerifAcquireSHA1(kb)
			h.Write(msg)
			ref := hmac.New(sha1.New, kb)
			ref.Write(msg)
			if !bytes.Equal(h.Sum(nil), ref.Sum(nil)) {
				o.fail("key-buffer-reuse-keeps-old-key", fmt.Sprintf("x round=%d keylen=%d", round, len(kb)))
			}
			stun.VerifPutSHA1(h)
			// and through MESSAGE-INTEGRITY
			m := stun.New()
			_ = m.Build(stun.BindingRequest, stun.TransactionID, stun.MessageIntegrity(kb))
			if _, ok := rfcIntegrityVerdict(m.Raw, kb); !ok {
				o.fail("key-buffer-reuse-keeps-old-key", fmt.Sprintf("x MESSAGE-INTEGRITY round=%d keylen=%d", round, len(kb)))
			}
		}
		o.count("key-buffer-reuse")
	}
	// long keys that share their first block: every byte of a key matters, also beyond the 64-byte block
	for i := 0; i < 100; i++ {
		kl := r.rangeIn(65, 200)
		k1 := r.bytes(kl)
		k2 := append([]byte(nil), k1...)
		k2[r.rangeIn(64, kl-1)] ^= byte(1 + r.intn(255))
		msg := r.bytes(r.intn(100))
		for _, k := range [][]byte{k1, k2, k1} {
			h := stun.VerifAcquireSHA1(k)
			h.Write(msg)
			ref := hmac.New(sha1.New, k)
			ref.Write(msg)
			if !bytes.Equal(h.Sum(nil), ref.Sum(nil)) {
				o.fail("long-keys-with-common-first-block", fmt.Sprintf("x keylen=%d", kl))
			}
			stun.VerifPutSHA1(h)
		}
		o.count("long-keys-common-prefix")
	}
	// a MAC obtained from Sum stays what it was, whatever happens to the pooled object afterwards
	for i := 0; i < 150; i++ {
		k := r.hmacKey()
		h := stun.VerifAcquireSHA1(k)
		msg := r.bytes(r.intn(120))
		h.Write(msg)
		var kept []byte
		switch i % 3 {
		case 0:
			kept = h.Sum(nil)
		case 1:
			kept = h.Sum(make([]byte, 0, r.intn(19)))
		default:
			kept = h.Sum([]byte{})
		}
		ref := hmac.New(sha1.New, k)
		ref.Write(msg)
		want := ref.Sum(nil)
		h.Write(r.bytes(10))
		_ = h.Sum(nil)
		h.Reset()
		h.Write(r.bytes(7))
		_ = h.Sum(nil)
		stun.VerifPutSHA1(h)
		h2 := stun.VerifAcquireSHA1(r.hmacKey())
		h2.Write(r.bytes(30))
		_ = h2.Sum(nil)
		stun.VerifPutSHA1(h2)
		if !bytes.Equal(kept, want) {
			o.fail("sum-result-overwritten-later", fmt.Sprintf("x mode=%d keylen=%d", i%3, len(k)))
		}
		o.count("kept-sum")
	}
	// MESSAGE-INTEGRITY computed concurrently through the public API, distinct keys, against crypto/hmac
	{
		var wg sync.WaitGroup
		var mu sync.Mutex
		bad := 0
		for w := 0; w < 16; w++ {
			wg.Add(1)
			go func(seed uint64) {
				defer wg.Done()
				rr := newRng(seed)
				for i := 0; i < 150; i++ {
					key := rr.bytes(1 + rr.intn(80))
					m := stun.New()
					_ = m.Build(stun.BindingRequest, stun.TransactionID, stun.NewSoftware(string(rr.bytes(rr.intn(40)))), stun.MessageIntegrity(key))
					_, ok := rfcIntegrityVerdict(m.Raw, key)
					d := new(stun.Message)
					cerr := stun.Decode(m.Raw, d)
					if cerr == nil {
						cerr = stun.MessageIntegrity(key).Check(d)
					}
					if !ok || cerr != nil {
						mu.Lock()
						bad++
						mu.Unlock()
					}
				}
			}(r.u64())
		}
		wg.Wait()
		if bad > 0 {
			o.fail("hmac-concurrent-mismatch", fmt.Sprintf("%d concurrent MESSAGE-INTEGRITY computations differ from crypto/hmac", bad))
		}
		o.countN("concurrent-message-integrity", 16*150)
	}
	// oversubscribed tight loop: 4 goroutines per P, each verifying ITS message with ITS key over and over; an
	// object handed back to the pool while still in use is re-keyed by another goroutine sooner or later
	{
		workers := 4 * runtime.GOMAXPROCS(0)
		iters := 12000
		if thorough {
			iters = 150000
		}
		var wg sync.WaitGroup
		var bad atomic.Int64
		for w := 0; w < workers; w++ {
			wg.Add(1)
			go func(w int) {
				defer wg.Done()
				key := []byte(fmt.Sprintf("password-of-worker-%03d", w))
				m := stun.New()
				_ = m.Build(stun.BindingRequest, stun.TransactionID, stun.NewSoftware(strings.Repeat("x", 4*(w%32))), stun.MessageIntegrity(key))
				d := new(stun.Message)
				if stun.Decode(m.Raw, d) != nil {
					bad.Add(1)
					return
				}
				mi := stun.MessageIntegrity(key)
				for i := 0; i < iters && bad.Load() == 0; i++ {
					if mi.Check(d) != nil {
						bad.Add(1)
						return
					}
				}
			}(w)
		}
		wg.Wait()
		if bad.Load() > 0 {
			o.fail("hmac-concurrent-mismatch", fmt.Sprintf("x %d workers: a correct MESSAGE-INTEGRITY was rejected while other goroutines were computing theirs", workers))
		}
		o.countN("oversubscribed-integrity-checks", workers*iters)
	}
	// concurrent use of the pool: 16 goroutines, thousands of histories compared with crypto/hmac
	// (run under the race detector in the thorough tier)
	workers, per := 16, 300
	if thorough {
		per = 3000
	}
	var wg sync.WaitGroup
	var mu sync.Mutex
	bad := 0
	for w := 0; w < workers; w++ {
		wg.Add(1)
		go func(seed uint64) {
			defer wg.Done()
			rr := newRng(seed)
			for i := 0; i < per; i++ {
				al := algoOf([]int{1, 256}[rr.intn(2)])
				key := rr.hmacKey()
				h := al.acquire(key)
				ref := hmac.New(al.std, key)
				for k := rr.intn(4); k >= 0; k-- {
					p := rr.bytes(rr.intn(300))
					h.Write(p)
					ref.Write(p)
					if rr.chance(1, 4) {
						h.Reset()
						ref.Reset()
					}
				}
				if !bytes.Equal(h.Sum(nil), ref.Sum(nil)) {
					mu.Lock()
					bad++
					mu.Unlock()
				}
				if rr.chance(1, 3) {
					h.Reset()
				}
				al.put(h)
			}
		}(r.u64())
	}
	wg.Wait()
	if bad > 0 {
		o.fail("hmac-concurrent-mismatch", fmt.Sprintf("%d of %d concurrent histories differ from crypto/hmac", bad, workers*per))
	}
	o.countN("concurrent-histories", workers*per)
	// lock-step: in every round 16 goroutines are released at the same instant, each re-keys a pooled state with a
	// long key of its own (longer than a block: hashed first) and computes a short MAC: shared scratch memory in
	// that path shows whatever the load of the machine
	{
		const lw = 16
		nbad := int32(0)
		for round := 0; round < 400 && atomic.LoadInt32(&nbad) == 0; round++ {
			var lwg sync.WaitGroup
			start := make(chan struct{})
			for w := 0; w < lw; w++ {
				lwg.Add(1)
				key := bytes.Repeat([]byte{byte(round), byte(w), 0x5c}, 30+w) // 90..135 bytes
				msg := []byte{byte(w), byte(round)}
				go func() {
					defer lwg.Done()
					ref := hmac.New(sha1.New, key)
					ref.Write(msg)
					want := ref.Sum(nil)
					<-start
					h := stun.VerifAcquireSHA1(key)
					h.Write(msg)
					got := h.Sum(nil)
					stun.VerifPutSHA1(h)
					if !bytes.Equal(got, want) {
						atomic.AddInt32(&nbad, 1)
					}
				}()
			}
			close(start)
			lwg.Wait()
		}
		if nbad > 0 {
			o.fail("hmac-concurrent-mismatch", fmt.Sprintf("x %d of the MACs computed by 16 goroutines released together, each with a long key of its own, differ from crypto/hmac", nbad))
		}
		o.countN("lock-step-long-keys", 400*lw)
	}
	return nil
}
