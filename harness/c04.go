package main

import (
	"crypto/sha256"
	"sync"
	"runtime"
	"bytes"
	"crypto/hmac"
	"crypto/sha1"
	"fmt"
	"hash/crc32"

	"github.com/pion/stun/v3"
)

// C04 (MESSAGE-INTEGRITY) and C05 (FINGERPRINT). Both use cmd 701 (checker on a decoded message)
// and cmd 301 (signing histories); oracles (B) in Go: the RFC verdict computed with crypto/hmac /
// hash/crc32 directly from the bytes.

func init() {
	props["C04"] = runC04
	props["C05"] = runC05
	cmds[401] = func(o *out, f [][]int) []int {
		get := func(i int) string {
			if i < len(f) {
				return string(bytesOf(f[i]))
			}
			return ""
		}
		// the key handed out belongs to the caller: wiping it (as one does with key material) and deriving it again
		// gives the same key; the credentials themselves are untouched by that
		u, re, pw := get(0), get(1), get(2)
		heapPw := string(append([]byte(nil), pw...)) // a run-time string, not a constant of the binary
		first := stun.NewLongTermIntegrity(u, re, heapPw)
		want := append([]byte(nil), first...)
		for k := range first {
			first[k] = 0
		}
		second := stun.NewLongTermIntegrity(u, re, heapPw)
		st := stun.NewShortTermIntegrity(heapPw)
		for k := range st {
			st[k] ^= 0xFF
		}
		st2 := stun.NewShortTermIntegrity(heapPw)
		if !bytes.Equal(second, want) || heapPw != pw || string(st2) != pw {
			o.fail("key-shared-between-callers", "401 "+fNums(f[0]...)+" "+fNums(f[1]...)+" "+fNums(f[2]...))
		}
		return intsOf(second)
	}
}

// rfcIntegrityVerdict: the RFC 5389 section 15.4 verdict for a decodable message, computed
// independently: first MESSAGE-INTEGRITY attribute, 20 bytes, HMAC-SHA1 over the bytes before it
// with the header length rewritten to end at it.
func rfcIntegrityVerdict(raw, key []byte) (present, ok bool) {
	l := int(raw[2])<<8 | int(raw[3])
	for off := 20; off+4 <= 20+l; {
		t := int(raw[off])<<8 | int(raw[off+1])
		al := int(raw[off+2])<<8 | int(raw[off+3])
		if t == 0x0008 {
			if al != 20 {
				return true, false
			}
			pre := append([]byte(nil), raw[:off]...)
			nl := off - 20 + 24
			pre[2], pre[3] = byte(nl>>8), byte(nl)
			mac := hmac.New(sha1.New, key)
			mac.Write(pre)
			return true, hmac.Equal(mac.Sum(nil), raw[off+4:off+24])
		}
		off += 4 + pad4(al)
	}
	return false, false
}

func rfcFingerprintVerdict(raw []byte) (present, ok bool) {
	l := int(raw[2])<<8 | int(raw[3])
	for off := 20; off+4 <= 20+l; {
		t := int(raw[off])<<8 | int(raw[off+1])
		al := int(raw[off+2])<<8 | int(raw[off+3])
		if t == 0x8028 {
			if al != 4 {
				return true, false
			}
			v := uint32(raw[off+4])<<24 | uint32(raw[off+5])<<16 | uint32(raw[off+6])<<8 | uint32(raw[off+7])
			return true, v == crc32.ChecksumIEEE(raw[:len(raw)-8])^0x5354554e
		}
		off += 4 + pad4(al)
	}
	return false, false
}

// checkCase runs checker g (6 MI, 7 FP) on data through cmd 701 and compares the verdict with the RFC
// oracle computed in Go.
func checkCase(o *out, r *rng, g int, data, key []byte, what string) {
	ex := fill(r, r.pick([]int{0, 0, 0, 5, 19, 20, 21, 40}), r.intn(3))
	t := 8
	if g == 7 {
		t = 0x8028
	}
	obs := o.run(701, []string{fHex(data), fHex(ex), fNums(g, t), fHex(key)}, true)
	o.count(what)
	if obs[0] != 0 { // not decodable: detected by the decoder
		o.count("undecodable")
		return
	}
	var present, want bool
	if g == 6 {
		present, want = rfcIntegrityVerdict(data, key)
	} else {
		present, want = rfcFingerprintVerdict(data)
	}
	got := len(obs) > 1 && obs[1] == 0
	if got != (present && want) {
		o.fail(fmt.Sprintf("verdict-differs-from-rfc:%d", g), "701 "+fHex(data)+" "+fHex(ex)+" "+fNums(g, t)+" "+fHex(key))
	}
}

// signedMessage: nBefore attributes, MESSAGE-INTEGRITY(key), nAfter attributes, optional FINGERPRINT
func signedMessage(r *rng, key []byte, nBefore, nAfter int, withMI, fp bool) []byte {
	setters := []stun.Setter{stun.NewType(stun.Method(r.intn(4096)), stun.MessageClass(r.intn(4))),
		stun.NewTransactionIDSetter([12]byte{byte(r.u64()), 2, 3, byte(r.u64()), 5, 6, 7, 8, 9, 10, 11, byte(r.u64())})}
	for i := 0; i < nBefore; i++ {
		setters = append(setters, stun.RawAttribute{Type: stun.AttrType(0x8030 + r.intn(8)), Value: r.bytes(r.intn(14))})
	}
	if withMI {
		setters = append(setters, stun.MessageIntegrity(key))
	}
	for i := 0; i < nAfter; i++ {
		setters = append(setters, stun.RawAttribute{Type: stun.AttrType(0x8040 + r.intn(8)), Value: r.bytes(r.intn(10))})
	}
	if fp {
		setters = append(setters, stun.Fingerprint)
		// sometimes more attributes behind FINGERPRINT (it no longer verifies; MESSAGE-INTEGRITY still does)
		for k := r.intn(6) - 3; k > 0; k-- {
			setters = append(setters, stun.RawAttribute{Type: stun.AttrType(0x8050 + r.intn(8)), Value: r.bytes(r.intn(10))})
		}
	}
	m := new(stun.Message)
	if err := m.Build(setters...); err != nil {
		panic(err)
	}
	return append([]byte(nil), m.Raw...)
}

var credAlphabet = []byte("ab%:s d%v\x00\xc3\xa9%%")

func runC04(o *out, thorough bool, r *rng, _ []string) map[string]interface{} {
	nmsg := 30
	if thorough {
		nmsg = 400
	}
	keyLens := []int{0, 1, 16, 20, 63, 64, 65, 100, 200}
	for i := 0; i < nmsg; i++ {
		key := r.bytes(keyLens[i%len(keyLens)])
		if i%7 == 3 { // long-term key
			u, re, p := r.bytes(r.intn(12)), r.bytes(r.intn(12)), r.bytes(r.intn(12))
			// SASLprep is the caller's business: any byte may occur, '%' and ':' included
			if i%14 == 3 {
				for _, b := range [][]byte{u, re, p} {
					for k := range b {
						b[k] = credAlphabet[int(b[k])%len(credAlphabet)]
					}
				}
			} else {
				for _, b := range [][]byte{u, re, p} {
					for k := range b {
						b[k] = 'a' + b[k]%26
					}
				}
			}
			o.run(401, []string{fHex(u), fHex(re), fHex(p)}, true)
			key = stun.NewLongTermIntegrity(string(u), string(re), string(p))
		}
		nb, na := r.intn(9), r.intn(5)
		data := signedMessage(r, key, nb, na, true, r.chance(1, 3))
		o.count(fmt.Sprintf("before:%d", nb))
		o.count(fmt.Sprintf("after:%d", na))
		checkCase(o, r, 6, data, key, "signed-right-key")
		// the same verdict when the check is called from a ForEach callback whose view still contains the attribute
		if dm := new(stun.Message); stun.Decode(data, dm) == nil {
			direct := stun.MessageIntegrity(key).Check(dm) == nil
			for vi, a := range dm.Attributes {
				if a.Type == stun.AttrMessageIntegrity {
					break
				}
				if vi > 3 {
					break
				}
				inside, seen := direct, false
				_ = dm.ForEach(a.Type, func(mm *stun.Message) error {
					if !seen {
						seen = true
						inside = stun.MessageIntegrity(key).Check(mm) == nil
					}
					return nil
				})
				if inside != direct {
					o.failFor("C04", "check-depends-on-the-caller", fmt.Sprintf("701 %s - 6,8 %s (inside a ForEach(%#x) callback: %v, directly: %v)", fHex(data), fHex(key), int(a.Type), inside, direct))
					break
				}
			}
			o.count("checks-inside-foreach")
		}
		// wrong keys
		checkCase(o, r, 6, data, append(append([]byte(nil), key...), 0), "wrong-key")
		checkCase(o, r, 6, data, r.bytes(len(key)+1), "wrong-key")
		// every single-bit flip (exhaustive for the first messages, sampled after)
		step := 1
		if i >= 6 && !thorough {
			step = 17
		}
		for bit := (i * 5) % step; bit < 8*len(data); bit += step {
			d := append([]byte(nil), data...)
			d[bit/8] ^= 1 << uint(bit%8)
			checkCase(o, r, 6, d, key, "bit-flip")
		}
	}
	// wrong / short / long MACs, MI of length != 20, two MI attributes
	n := 150
	if thorough {
		n = 2000
	}
	for i := 0; i < n; i++ {
		key := r.bytes(r.intn(40))
		var body []byte
		for k := r.intn(4); k > 0; k-- {
			l := r.intn(9)
			body = append(body, r.tlv(0x8030, r.bytes(l), l)...)
		}
		ml := r.pick([]int{0, 1, 16, 17, 18, 19, 20, 20, 20, 21, 24, 32})
		body = append(body, r.tlv(0x0008, r.bytes(ml), ml)...)
		if r.chance(1, 3) { // a second MI: only the first counts
			real := hmac.New(sha1.New, key)
			real.Write([]byte("x"))
			body = append(body, r.tlv(0x0008, real.Sum(nil), 20)...)
		}
		for k := r.intn(4); k > 0; k-- {
			l := r.intn(9)
			body = append(body, r.tlv(0x8031, r.bytes(l), l)...)
		}
		data := append(header(0x0001, len(body), r.bytes(12)), body...)
		// sometimes make the first 20-byte MAC correct by construction
		if ml > 0 && r.chance(2, 3) {
			off := 20
			for off < len(data) && !(data[off] == 0 && data[off+1] == 8) {
				al := int(data[off+2])<<8 | int(data[off+3])
				off += 4 + pad4(al)
			}
			pre := append([]byte(nil), data[:off]...)
			nl := off - 20 + 24
			pre[2], pre[3] = byte(nl>>8), byte(nl)
			mac := hmac.New(sha1.New, key)
			mac.Write(pre)
			sum := mac.Sum(nil)
			if ml < 20 {
				sum = sum[:ml] // a truncated but otherwise correct MAC must be refused
			}
			copy(data[off+4:off+4+ml], sum)
			o.count(fmt.Sprintf("crafted-mac-prefix:len=%d", ml))
		}
		checkCase(o, r, 6, data, key, "crafted-mac")
	}
	signAfterDecode(o, r, true, 120)
	lengthSweep(o, r, true)
	// the key buffer is the caller's: rewritten in place between AddTo / Check calls
	for i := 0; i < 150; i++ {
		kb := r.bytes(1 + r.intn(80))
		var prev []byte
		var prevKey []byte
		for round := 0; round < 3; round++ {
			for k := range kb {
				kb[k] = byte(r.intn(256))
			}
			m := stun.New()
			_ = m.Build(stun.BindingRequest, stun.TransactionID, stun.MessageIntegrity(kb))
			if _, ok := rfcIntegrityVerdict(m.Raw, kb); !ok {
				o.fail("key-buffer-reuse-keeps-old-key", fmt.Sprintf("x AddTo round=%d keylen=%d", round, len(kb)))
			}
			if prev != nil && !bytes.Equal(prevKey, kb) {
				d := new(stun.Message)
				if stun.Decode(prev, d) == nil && stun.MessageIntegrity(kb).Check(d) == nil {
					o.fail("key-buffer-reuse-keeps-old-key", fmt.Sprintf("x a message signed under the previous key verifies under the new one, round=%d", round))
				}
			}
			prev, prevKey = append([]byte(nil), m.Raw...), append([]byte(nil), kb...)
		}
		o.count("key-buffer-reuse")
	}
	// signing is refused after FINGERPRINT (history through cmd 301)
	for i := 0; i < 40; i++ {
		g := &histGen{r: r}
		fs := append(g.start(0), numsField(1, 3), numsField(1, 1, 0), numsField(11), withBytes([]int{10}, r.bytes(r.intn(30))))
		o.run(301, fs, true)
		o.count("mi-after-fp")
		// FINGERPRINT followed by further attributes (built, or decoded with bytes after the message)
		fs = append(g.start(0), numsField(1, 4), numsField(1, 1, 0), numsField(11), withBytes([]int{3, 0x8030}, r.bytes(r.intn(9))),
			withBytes([]int{10}, r.bytes(r.intn(30))))
		o.run(301, fs, true)
		var body []byte
		for k := r.intn(3); k > 0; k-- {
			body = append(body, r.tlv(0x8030, r.bytes(k), k)...)
		}
		body = append(body, r.tlv(0x8028, r.bytes(4), 4)...)
		for k := r.rangeIn(1, 3); k > 0; k-- {
			body = append(body, r.tlv(0x8031, r.bytes(k+2), k+2)...)
		}
		data := append(append(header(0x0001, len(body), r.bytes(12)), body...), r.bytes(r.pick([]int{0, 0, 3, 8}))...)
		o.run(301, []string{"0", "-", fHex(data), "7," + withBytes([]int{10}, r.bytes(r.intn(30)))}, true)
		o.count("mi-after-fp-not-last")
	}
	// credentials that are themselves quoted / escaped / percent-encoded strings (a realm arrives quoted in some
	// protocols): the key is MD5 of the bytes as given, quotes and all
	for i := 0; i < 60; i++ {
		inner := []string{"example.org", "realm", `a\nb\x41`, string(r.bytes(r.intn(10))), "", "pion.ly"}[i%6]
		wrap := func(k int, x string) string {
			return []string{`"` + x + `"`, "'" + x + "'", "`" + x + "`", `\"` + x + `\"`, "%22" + x + "%22", "<" + x + ">", x + `"`, x}[k%8]
		}
		c := [3]string{"user", "realm", "pass"}
		c[i%3] = wrap(i/3, inner)
		if i%7 == 0 {
			c[(i+1)%3] = wrap(i, inner)
		}
		o.run(401, []string{fHex([]byte(c[0])), fHex([]byte(c[1])), fHex([]byte(c[2]))}, true)
		o.count("quoted-credentials")
	}
	// explicit 401 cases with format verbs and separators in the credentials
	for _, c := range [][3]string{{"%s", "realm", "pass"}, {"user", "%d%%", "p"}, {"a:b", "c", "d"}, {"u", "r", "%!x(MISSING)"}, {"%v%v", "%", "%%"}, {"", "", ""},
		// code points that SASLprep would map away or replace (the key is MD5 of the bytes as given: preparing them is the caller's
		// business), the unprepared RFC 5769 password, NFKC-sensitive letters, a BOM, invalid UTF-8
		{"us\u00ader", "re\u00a0alm", "pa\u200bss"}, {"\ufeffuser", "realm\u3000", "The\u00adM\u00aatr\u2168"}, {"\u2168", "\ufb01", "\u1e9b\u0323"},
		{"user", "example.org", "\xff\xfe"}, {"\u30de\u30c8\u30ea\u30c3\u30af\u30b9", "example.org", "The\u00adM\u00aatr\u2168"}} {
		o.run(401, []string{fHex([]byte(c[0])), fHex([]byte(c[1])), fHex([]byte(c[2]))}, true)
		// short-term credentials: the key is the password, byte for byte
		if k := stun.NewShortTermIntegrity(c[2]); string(k) != c[2] {
			o.fail("short-term-key-is-not-the-password", "401 "+fHex([]byte(c[0]))+" "+fHex([]byte(c[1]))+" "+fHex([]byte(c[2])))
		}
	}
	// MACs that some other specification or a sloppy implementation would compute over the same message: all
	// wrong under RFC 5389, whatever they resemble
	for i := 0; i < 40; i++ {
		key := r.bytes(r.pick([]int{1, 16, 20, 40}))
		data := signedMessage(r, key, r.intn(6), r.intn(3), true, i%2 == 0)
		off := 20
		for off+4 <= len(data) && !(data[off] == 0 && data[off+1] == 8) {
			off += 4 + pad4(int(data[off+2])<<8|int(data[off+3]))
		}
		if off+24 > len(data) {
			continue
		}
		text := append([]byte(nil), data[:off]...)
		nl := off - 20 + 24
		text[2], text[3] = byte(nl>>8), byte(nl)
		mac := func(k, t []byte) []byte { h := hmac.New(sha1.New, k); h.Write(t); return h.Sum(nil) }
		padded := append(append([]byte(nil), text...), make([]byte, (64-len(text)%64)%64)...)
		alts := [][]byte{
			mac(key, padded),                       // RFC 3489: text padded with zeroes to a multiple of 64
			mac(key, data[:off]),                   // header length not adjusted
			mac(key, data[20:off]),                 // without the header
			mac(key, append(text, data[off:off+4]...)), // including the attribute's own header
			mac(append(append([]byte(nil), key...), 0), text),
		}
		h256 := hmac.New(sha256.New, key)
		h256.Write(text)
		alts = append(alts, h256.Sum(nil)[:20])
		for _, alt := range alts {
			if bytes.Equal(alt, data[off+4:off+24]) {
				continue
			}
			d := append([]byte(nil), data...)
			copy(d[off+4:off+24], alt)
			checkCase(o, r, 6, d, key, "plausible-but-wrong-mac")
		}
	}
	return nil
}

// concurrentFingerprints: goroutines (4 per P) each add FINGERPRINT to and check messages of their own,
// nothing shared between them: every value equals the CRC computed independently, every check passes, and a
// message with one flipped bit is rejected
func concurrentFingerprints(o *out, rounds int) {
	var wg sync.WaitGroup
	var mu sync.Mutex
	bad := ""
	for w := 0; w < 4*runtime.GOMAXPROCS(0); w++ {
		wg.Add(1)
		go func(w int) {
			defer wg.Done()
			rr := newRng(uint64(9000 + w))
			for i := 0; i < rounds; i++ {
				m := new(stun.Message)
				m.TransactionID = agentTID(w*1000 + i%1000)
				m.Type = stun.MessageType{Method: stun.MethodBinding, Class: stun.ClassRequest}
				m.WriteHeader()
				m.Add(stun.AttrSoftware, rr.bytes(rr.intn(900)))
				if err := stun.Fingerprint.AddTo(m); err != nil {
					continue
				}
				n := len(m.Raw)
				want := crc32.ChecksumIEEE(m.Raw[:n-8]) ^ 0x5354554e
				got := uint32(m.Raw[n-4])<<24 | uint32(m.Raw[n-3])<<16 | uint32(m.Raw[n-2])<<8 | uint32(m.Raw[n-1])
				d := new(stun.Message)
				derr := stun.Decode(m.Raw, d)
				cerr := error(nil)
				if derr == nil {
					cerr = stun.Fingerprint.Check(d)
				}
				flipped := append([]byte(nil), m.Raw...)
				flipped[20+rr.intn(n-28)] ^= 1 << uint(rr.intn(8))
				d2 := new(stun.Message)
				accepted := stun.Decode(flipped, d2) == nil && stun.Fingerprint.Check(d2) == nil
				if got != want || derr != nil || cerr != nil || accepted {
					mu.Lock()
					if bad == "" {
						bad = fmt.Sprintf("701 %s - 7,0 (goroutine %d round %d: value %08x want %08x, decode=%v check=%v, one-bit-flip accepted=%v)", fHex(m.Raw), w, i, got, want, derr, cerr, accepted)
					}
					mu.Unlock()
				}
			}
		}(w)
	}
	wg.Wait()
	if bad != "" {
		o.failFor("C05", "concurrent-fingerprint-wrong", bad)
	}
	o.countN("concurrent-fingerprints", rounds*4*runtime.GOMAXPROCS(0))
}

func runC05(o *out, thorough bool, r *rng, _ []string) map[string]interface{} {
	nmsg := 40
	if thorough {
		nmsg = 600
	}
	concurrentFingerprints(o, map[bool]int{false: 300, true: 3000}[thorough])
	// attribute bytes beyond what the 16-bit length field can say (Add has no limit): whatever the header then
	// says, the fingerprint is computed over the bytes that are there, as the model does
	for _, sizes := range [][]int{{65532}, {65536}, {40000, 30000}, {65528, 8}} {
		ops := []string{numsField(1, 1), numsField(1, 1, 0)}
		for _, l := range sizes {
			ops = append(ops, withBytes([]int{4, 0x0013}, r.bytes(l)))
		}
		ops = append(ops, "7,"+numsField(11))
		o.run(301, append([]string{"0", "-", "-"}, ops...), true)
		o.count("fingerprint-over-huge-bodies")
	}
	// FINGERPRINT (and MESSAGE-INTEGRITY) added to a Message that has no header bytes yet: a new one, one that
	// was Reset, one whose buffer is shorter than a header, one that holds only a header
	for _, st := range [][]string{{"0", "-", "-"}, {"20", fHex(make([]byte, 120)), "-"}, {"7", fHex(bytes.Repeat([]byte{0xEE}, 64)), "-"},
		{"0", fHex(bytes.Repeat([]byte{0xEE}, 19)), "-"}, {"0", "-", fHex(r.validMessage(3, 20))}} {
		for _, pre := range [][]string{{}, {numsField(9)}, {numsField(2)}, {numsField(9), numsField(2)}, {numsField(1, 0)}, {numsField(1, 0), numsField(9)}} {
			for _, sign := range [][]string{{"7," + numsField(11)}, {"7," + withBytes([]int{10}, r.bytes(20)), "7," + numsField(11)}, {"7," + numsField(11), numsField(3)}} {
				ops := append(append([]string{}, pre...), sign...)
				o.run(301, append(append([]string{}, st...), ops...), true)
				o.count("fingerprint-without-header-histories")
			}
		}
	}
	for i := 0; i < nmsg; i++ {
		key := r.bytes(r.intn(30))
		data := signedMessage(r, key, r.intn(5), 0, i%2 == 0, true)
		checkCase(o, r, 7, data, nil, "fingerprinted")
		if _, ok := rfcFingerprintVerdict(data); ok {
			// values that a draft, another checksum or a slip of the pen would put there: all wrong
			n := len(data)
			crc := crc32.ChecksumIEEE(data[:n-8])
			put := func(v uint32) []byte {
				d := append([]byte(nil), data...)
				d[n-4], d[n-3], d[n-2], d[n-1] = byte(v>>24), byte(v>>16), byte(v>>8), byte(v)
				return d
			}
			le := crc ^ 0x5354554e
			for _, v := range []uint32{crc, crc ^ 0x4e555453, ^(crc ^ 0x5354554e), crc32.ChecksumIEEE(data[:n-4]) ^ 0x5354554e, crc32.ChecksumIEEE(data[20:n-8]) ^ 0x5354554e,
				crc32.Checksum(data[:n-8], crc32.MakeTable(crc32.Castagnoli)) ^ 0x5354554e, le<<24 | (le>>8&0xff)<<16 | (le>>16&0xff)<<8 | le>>24, 0x5354554e, 0, crc ^ 0x2112a442} {
				if v != crc^0x5354554e {
					checkCase(o, r, 7, put(v), nil, "plausible-but-wrong-fingerprint")
				}
			}
			// the same verdict from inside a ForEach callback whose view still contains the FINGERPRINT
			if dm := new(stun.Message); stun.Decode(data, dm) == nil {
				for vi, a := range dm.Attributes {
					if a.Type == stun.AttrFingerprint || vi > 3 {
						break
					}
					inside, seen := true, false
					_ = dm.ForEach(a.Type, func(mm *stun.Message) error {
						if !seen {
							seen = true
							inside = stun.Fingerprint.Check(mm) == nil
						}
						return nil
					})
					if !inside {
						o.failFor("C05", "check-depends-on-the-caller", fmt.Sprintf("701 %s - 7,0 (inside a ForEach(%#x) callback the valid fingerprint is rejected)", fHex(data), int(a.Type)))
						break
					}
				}
			}
		}
		// a valid MESSAGE-INTEGRITY followed by a FINGERPRINT-TYPED attribute of any value length (0, 1..3, 5..40):
		// both checks are decided by the model
		if i%2 == 0 {
			plain := signedMessage(r, key, r.intn(3), 0, true, false)
			l := []int{0, 1, 2, 3, 5, 6, 7, 8, 12, 20, 40}[i/2%11]
			tl := r.tlv(0x8028, r.bytes(l), l)
			ext := append(append([]byte(nil), plain...), tl...)
			bl := len(ext) - 20
			ext[2], ext[3] = byte(bl>>8), byte(bl)
			checkCase(o, r, 6, ext, key, "odd-sized-fingerprint-after-integrity")
			checkCase(o, r, 7, ext, key, "odd-sized-fingerprint-after-integrity")
		}
		// a FINGERPRINT whose entry in the attribute list was written by the caller as a literal without the Length
		// field (it is ignored while encoding): the fingerprint check goes by the value, so its verdict is the one
		// on the list as decoded
		if i%4 == 1 {
			withFP := signedMessage(r, key, r.intn(3), 0, i%8 == 1, true)
			dm := new(stun.Message)
			if stun.Decode(withFP, dm) == nil {
				before := stun.Fingerprint.Check(dm)
				for k := range dm.Attributes {
					dm.Attributes[k] = stun.RawAttribute{Type: dm.Attributes[k].Type, Value: dm.Attributes[k].Value}
				}
				if err := stun.Fingerprint.Check(dm); (err == nil) != (before == nil) {
					o.fail("check-depends-on-the-length-field", fmt.Sprintf("701 %s - 7,0 - (attribute list as decoded: %v; rewritten by the caller as literals without Length: %v)", fHex(withFP), before, err))
				}
			}
		}
		// a leading type bit flipped in transit, and the receiver checking integrity BEFORE the fingerprint: the
		// fingerprint still catches it
		if i%2 == 0 {
			for _, bit := range []byte{0x80, 0x40} {
				fl := append([]byte(nil), data...)
				fl[0] ^= bit
				dm := new(stun.Message)
				if stun.Decode(fl, dm) != nil {
					continue
				}
				_ = stun.MessageIntegrity(key).Check(dm)
				if stun.Fingerprint.Check(dm) == nil || !bytes.Equal(dm.Raw, fl) {
					o.fail("bit-flip-undetected-after-integrity-check", "701 "+fHex(fl)+" - 7,0 "+fHex(key))
				}
			}
		}
		// a message WITHOUT a FINGERPRINT, followed after its declared length by eight bytes that would be a correct
		// one: bytes after the declared length are not attributes
		if i%2 == 1 {
			plain := signedMessage(r, key, r.intn(4), r.intn(3), i%4 == 1, false)
			v := crc32.ChecksumIEEE(func() []byte {
				c := append([]byte(nil), plain...)
				l := len(c) - 20 + 8
				c[2], c[3] = byte(l>>8), byte(l)
				return c
			}()) ^ 0x5354554e
			v2 := crc32.ChecksumIEEE(plain) ^ 0x5354554e
			for _, vv := range []uint32{v, v2} {
				tr := append(append([]byte(nil), plain...), 0x80, 0x28, 0, 4, byte(vv>>24), byte(vv>>16), byte(vv>>8), byte(vv))
				checkCase(o, r, 7, tr, nil, "fingerprint-only-behind-the-declared-length")
			}
		}
		// bytes after the declared length (Decode tolerates them and keeps them in Raw): the verdict follows
		// from the bytes the library hashes, whichever they are; both the untouched FINGERPRINT and one
		// recomputed over Raw[:len-8] of the longer buffer are checked
		for _, jl := range []int{1, 4, 7, 8, 12, 20} {
			dj := append(append([]byte(nil), data...), r.bytes(jl)...)
			checkCase(o, r, 7, dj, nil, "fingerprinted+trailing")
			v := crc32.ChecksumIEEE(dj[:len(dj)-8]) ^ 0x5354554e
			fpOff := len(data) - 4
			dj2 := append([]byte(nil), dj...)
			dj2[fpOff], dj2[fpOff+1], dj2[fpOff+2], dj2[fpOff+3] = byte(v>>24), byte(v>>16), byte(v>>8), byte(v)
			checkCase(o, r, 7, dj2, nil, "fingerprinted+trailing-recomputed")
		}
		// a failed MESSAGE-INTEGRITY check (wrong key) must leave the message as it was: FINGERPRINT still verifies
		if i%2 == 0 {
			d := new(stun.Message)
			if stun.Decode(data, d) == nil {
				before := append([]byte(nil), d.Raw...)
				_ = stun.MessageIntegrity(append(append([]byte(nil), key...), 0x55)).Check(d)
				_, fpValid := rfcFingerprintVerdict(data) // not when other attributes follow the FINGERPRINT
				if !bytes.Equal(before, d.Raw) || (fpValid && stun.Fingerprint.Check(d) != nil) {
					o.fail("fingerprint-rejected-after-failed-integrity-check", "701 "+fHex(data)+" - 7,0 "+fHex(key))
				}
				o.count("fp-after-failed-mi-check")
			}
		}
		// EVERY bit position of the message
		for bit := 0; bit < 8*len(data); bit++ {
			d := append([]byte(nil), data...)
			d[bit/8] ^= 1 << uint(bit%8)
			flipCase(o, r, d, data, "bit-flip")
		}
		// random bursts of <= 32 bits as LSB-first windows
		for k := 0; k < 60; k++ {
			start := r.intn(8*len(data) - 1)
			w := r.rangeIn(2, 32)
			d := append([]byte(nil), data...)
			changed := false
			for b := start; b < start+w && b < 8*len(data); b++ {
				if b == start || b == start+w-1 || r.chance(1, 2) {
					d[b/8] ^= 1 << uint(b%8)
					changed = true
				}
			}
			if changed {
				flipCase(o, r, d, data, "burst")
			}
		}
	}
	signAfterDecode(o, r, false, 300)
	lengthSweep(o, r, false)
	// arbitrary decodable messages containing FINGERPRINT attributes of any length and position
	n := 800
	if thorough {
		n = 10000
	}
	for i := 0; i < n; i++ {
		var body []byte
		for k := r.rangeIn(1, 5); k > 0; k-- {
			t := r.pick([]int{0x8028, 0x8028, 0x8030, 0x0008, 0x8022})
			l := r.pick([]int{0, 3, 4, 4, 4, 5, 8, r.intn(12)})
			body = append(body, r.tlv(t, r.bytes(l), l)...)
		}
		data := append(header(r.intn(65536), len(body), r.bytes(12)), body...)
		if r.chance(1, 2) && len(data) >= 28 {
			// make the value of the first 4-byte FINGERPRINT correct by construction
			for off := 20; off+8 <= len(data); {
				al := int(data[off+2])<<8 | int(data[off+3])
				if data[off] == 0x80 && data[off+1] == 0x28 && al > 0 {
					// also for values that are too short or too long: a correct CRC prefix in a
					// FINGERPRINT of the wrong size must still be refused
					v := crc32.ChecksumIEEE(data[:len(data)-8]) ^ 0x5354554e
					vb := []byte{byte(v >> 24), byte(v >> 16), byte(v >> 8), byte(v)}
					for k := 0; k < 4 && k < al; k++ {
						data[off+4+k] = vb[k]
					}
					o.count(fmt.Sprintf("crafted-crc-prefix:len=%d", al))
					break
				}
				off += 4 + pad4(al)
			}
		}
		checkCase(o, r, 7, data, nil, "crafted-fingerprint")
	}
	return map[string]interface{}{"exhaustive_part": "every bit position of every generated fingerprinted message"}
}

// signAfterDecode: a message obtained by Decode (optionally with bytes after the declared length,
// which Decode tolerates), then signed / fingerprinted by the library, must verify.
func signAfterDecode(o *out, r *rng, useMI bool, n int) {
	for i := 0; i < n; i++ {
		src := r.validMessage(4, 20)
		// keep it free of MI / FINGERPRINT attributes
		m0 := new(stun.Message)
		if stun.Decode(src, m0) != nil || m0.Contains(stun.AttrFingerprint) || m0.Contains(stun.AttrMessageIntegrity) {
			continue
		}
		junk := r.bytes(r.pick([]int{0, 0, 1, 3, 4, 12}))
		data := append(append([]byte(nil), src...), junk...)
		key := r.bytes(r.intn(24))
		op := numsField(7, 11)
		if useMI {
			op = "7," + withBytes([]int{10}, key)
		}
		o.run(301, []string{"0", "-", fHex(data), op}, true)
		m := new(stun.Message)
		if stun.Decode(data, m) != nil {
			continue
		}
		var cerr error
		if useMI {
			_ = stun.MessageIntegrity(key).AddTo(m)
		} else {
			_ = stun.Fingerprint.AddTo(m)
		}
		d := new(stun.Message)
		derr := stun.Decode(m.Raw, d)
		if derr == nil {
			if useMI {
				cerr = stun.MessageIntegrity(key).Check(d)
			} else {
				cerr = stun.Fingerprint.Check(d)
			}
		}
		o.count(fmt.Sprintf("sign-after-decode:junk=%d", len(junk)))
		if derr != nil || cerr != nil {
			o.fail("signed-message-does-not-verify", fmt.Sprintf("301 0 - %s %s trailing=%d", fHex(data), op, len(junk)))
		}
	}
}

// lengthSweep: SYSTEMATIC over the body length before signing: every multiple of 4 from 0 to 1100 (both
// bytes of the header length field change, with and without carry), signed / fingerprinted by the
// library through a history (model comparison) and verified by the library and the RFC oracle.
func lengthSweep(o *out, r *rng, useMI bool) {
	for l := 0; l <= 1100; l += 4 {
		var body []byte
		if l >= 4 {
			body = r.tlv(0x8030, r.bytes(l-4), l-4)
		}
		data := append(header(0x0001, len(body), r.bytes(12)), body...)
		key := r.bytes(1 + r.intn(24))
		op := numsField(7, 11)
		if useMI {
			op = "7," + withBytes([]int{10}, key)
		}
		o.run(301, []string{"0", "-", fHex(data), op}, true)
		o.count("length-sweep")
		m := new(stun.Message)
		if stun.Decode(data, m) != nil {
			o.fail("sweep-message-does-not-decode", fmt.Sprintf("301 0 - %s %s", fHex(data), op))
			continue
		}
		var cerr error
		if useMI {
			_ = stun.MessageIntegrity(key).AddTo(m)
		} else {
			_ = stun.Fingerprint.AddTo(m)
		}
		d := new(stun.Message)
		derr := stun.Decode(m.Raw, d)
		ok := false
		if derr == nil {
			if useMI {
				cerr = stun.MessageIntegrity(key).Check(d)
				_, ok = rfcIntegrityVerdict(m.Raw, key)
			} else {
				cerr = stun.Fingerprint.Check(d)
				_, ok = rfcFingerprintVerdict(m.Raw)
			}
		}
		if derr != nil || cerr != nil || !ok {
			o.fail("signed-message-does-not-verify", fmt.Sprintf("301 0 - %s %s body=%d", fHex(data), op, l))
		}
	}
}

// flipCase: a corrupted copy of a fingerprinted message must be detected (decode fails or the check
// fails) whenever FINGERPRINT remains its only such attribute.
func flipCase(o *out, r *rng, d, orig []byte, what string) {
	checkCase(o, r, 7, d, nil, what)
	m := new(stun.Message)
	if stun.Decode(d, m) != nil {
		return
	}
	nfp := 0
	for _, a := range m.Attributes {
		if a.Type == stun.AttrFingerprint {
			nfp++
		}
	}
	if nfp != 1 {
		o.count("fingerprint-no-longer-unique")
		return
	}
	if stun.Fingerprint.Check(m) == nil {
		o.fail("corruption-undetected", "701 "+fHex(d)+" - 7,32808 - orig="+fHex(orig))
	}
}
