// Command stunverif drives the real pion/stun library over generated cases and prints, for
// every case, the input in the model's format and the implementation's projected observables.
//
//	stunverif <property> <tier> <seed> <outdir>
//
// writes <outdir>/cases.txt (one "<cmd> <field>..." line per case, input of the Coq model),
// <outdir>/impl.txt (one line of decimals per case: the implementation's observables, same
// serialisation as the model's result), <outdir>/monitor.txt (failures of runtime monitors and
// of property oracles evaluated in Go) and <outdir>/stats.json (input distribution).
package main

import (
	"bytes"
	"os/exec"
	"bufio"
	"encoding/hex"
	"encoding/json"
	"fmt"
	"os"
	"path/filepath"
	"sort"
	"strconv"
	"strings"
	"sync"
	"time"
)

// ---------- deterministic PRNG: every random choice derives from one splitmix64 state ----------

type rng struct{ s uint64 }

func newRng(seed uint64) *rng { return &rng{s: seed*0x9E3779B97F4A7C15 + 0x1234567} }

func (r *rng) u64() uint64 {
	r.s += 0x9E3779B97F4A7C15
	z := r.s
	z = (z ^ (z >> 30)) * 0xBF58476D1CE4E5B9
	z = (z ^ (z >> 27)) * 0x94D049BB133111EB
	return z ^ (z >> 31)
}
func (r *rng) intn(n int) int {
	if n <= 0 {
		return 0
	}
	return int(r.u64() % uint64(n))
}
func (r *rng) rangeIn(lo, hi int) int { return lo + r.intn(hi-lo+1) }
func (r *rng) bytes(n int) []byte {
	b := make([]byte, n)
	for i := range b {
		b[i] = byte(r.u64())
	}
	return b
}
func (r *rng) chance(num, den int) bool { return r.intn(den) < num }
func (r *rng) pick(xs []int) int        { return xs[r.intn(len(xs))] }

// ---------- literals of the library's source (written by bin/check), used as a dictionary ----------

var (
	litInts []int
	litStrs [][]byte
)

func init() {
	path := os.Getenv("VERIF_LITERALS")
	if path == "" {
		return
	}
	data, err := os.ReadFile(path)
	if err != nil {
		return
	}
	for _, l := range strings.Split(string(data), "\n") {
		switch {
		case strings.HasPrefix(l, "i "):
			if v, err := strconv.Atoi(l[2:]); err == nil {
				litInts = append(litInts, v)
			}
		case strings.HasPrefix(l, "s "):
			b := make([]byte, len(l[2:])/2)
			ok := true
			for k := range b {
				v, err := strconv.ParseUint(l[2+2*k:4+2*k], 16, 8)
				if err != nil {
					ok = false
					break
				}
				b[k] = byte(v)
			}
			if ok {
				litStrs = append(litStrs, b)
			}
		}
	}
}

// litIntsIn: the source's integer literals within [lo, hi], at most max of them (the largest ones first: the
// small ones are exercised anyway)
func litIntsIn(lo, hi, max int) []int {
	var out []int
	for i := len(litInts) - 1; i >= 0 && len(out) < max; i-- {
		if v := litInts[i]; v >= lo && v <= hi {
			out = append(out, v)
		}
	}
	return out
}

// ---------- output ----------

type out struct {
	dir        string
	cases      *bufio.Writer
	impl       *bufio.Writer
	monitor    *bufio.Writer
	files      []*os.File
	n          int
	nfail      int
	stats      map[string]int
	samples    []string
	distinct   map[string]struct{}
	nontrivial int
	quiet      bool      // a scratch sink used by the concurrent stage: nothing is written
	conc       []concRec // sample of the cases of this run for the concurrent stage
}

// concRec: one executed case and what the implementation answered when it ran alone
type concRec struct {
	cmd    int
	fields []string
	obs    []int
}

// concurrency-safe commands: they touch nothing but the objects they create themselves
var concCmds = map[int]bool{101: true, 201: true, 202: true, 301: true, 401: true, 601: true, 602: true, 603: true, 701: true,
	1901: true, 1902: true, 1903: true, 1904: true}

// concurrentStage re-executes a sample of this run's cases in a FRESH process (so that whatever the library
// initialises or caches on first use is cold again) from 16 goroutines at once, every goroutine the whole
// sample in the same order, each case on objects of its own: what the library answers for an input must not
// depend on what other goroutines are doing with other objects (no hidden shared state).  Compared with the
// answer the same case gave when it ran alone in this process.
func (o *out) concurrentStage() {
	if len(o.conc) == 0 || o.quiet {
		return
	}
	path := filepath.Join(o.dir, "conc.txt")
	var sb strings.Builder
	for _, c := range o.conc {
		sb.WriteString(strconv.Itoa(c.cmd) + " " + strings.Join(c.fields, " ") + "\t" + fNums(c.obs...) + "\n")
	}
	must(os.WriteFile(path, []byte(sb.String()), 0o644))
	cmd := exec.Command(os.Args[0], "concstage", "quick", "0", filepath.Join(o.dir, "concstage"), path)
	var outb, errb bytes.Buffer
	cmd.Stdout, cmd.Stderr = &outb, &errb
	done := make(chan error, 1)
	must(cmd.Start())
	go func() { done <- cmd.Wait() }()
	var werr error
	select {
	case werr = <-done:
	case <-time.After(300 * time.Second):
		_ = cmd.Process.Kill()
		<-done
		o.fail("concurrent-stage-hangs", fmt.Sprintf("x %d cases from 16 goroutines: no result in 300 s", len(o.conc)))
		return
	}
	ans := outb.String()
	if werr != nil || !strings.Contains(ans, "concstage-done") {
		msg := errb.String()
		if len(msg) > 400 {
			msg = msg[:400]
		}
		o.fail("concurrent-stage-crash", fmt.Sprintf("x %d cases of this run executed from 16 goroutines in a fresh process: %v: %s", len(o.conc), werr, strings.ReplaceAll(msg, "\n", " | ")))
		return
	}
	n := 0
	for _, l := range strings.Split(ans, "\n") {
		if strings.HasPrefix(l, "differs ") && n < 20 {
			o.fail("concurrent-result-differs", strings.TrimPrefix(l, "differs "))
			n++
		}
	}
	o.countN("concurrent-stage-executions", 3*16*len(o.conc))
}

// runConcStage: child side of concurrentStage; args[0] is the sample file
func runConcStage(o *out, _ bool, _ *rng, args []string) map[string]interface{} {
	data, err := os.ReadFile(args[0])
	must(err)
	type rec struct {
		line string
		cmd  int
		fs   [][]int
		want string
	}
	var recs []rec
	for _, l := range strings.Split(string(data), "\n") {
		parts := strings.SplitN(l, "\t", 2)
		if len(parts) != 2 {
			continue
		}
		cmd, fs, _ := parseCase(parts[0])
		recs = append(recs, rec{parts[0], cmd, fs, fmt.Sprint(parseField(parts[1]))})
	}
	// first, alone and in REVERSE order: this process has used nothing of the library yet, so whatever is
	// initialised on first use is now initialised by another operation than in the run that produced the sample
	{
		q := &out{quiet: true, stats: map[string]int{}, distinct: map[string]struct{}{}}
		for i := len(recs) - 1; i >= 0; i-- {
			c := recs[i]
			fs := make([][]int, len(c.fs))
			for k := range c.fs {
				fs[k] = append([]int(nil), c.fs[k]...)
			}
			var got []int
			pan, _ := guarded(func() { got = cmds[c.cmd](q, fs) })
			if pan || fmt.Sprint(got) != c.want {
				fmt.Println("differs " + c.line)
			}
		}
	}
	// every case is executed by 16 goroutines released at the same instant (three rounds), so that they are
	// in the same code path of the library at the same time
	const workers = 16
	var mu sync.Mutex
	bad := map[int]bool{}
	qs := make([]*out, workers)
	for w := range qs {
		qs[w] = &out{quiet: true, stats: map[string]int{}, distinct: map[string]struct{}{}}
	}
	for round := 0; round < 3; round++ {
		for i, c := range recs {
			var wg sync.WaitGroup
			start := make(chan struct{})
			for w := 0; w < workers; w++ {
				wg.Add(1)
				go func(w int) {
					defer wg.Done()
					// round 0: everybody the same case (first-use state, caches); later rounds: neighbours in
					// the sample, i.e. mostly the same operation on DIFFERENT data (shared scratch memory)
					j, c := i, c
					if round > 0 {
						j = (i + w*round) % len(recs)
						c = recs[j]
					}
					fs := make([][]int, len(c.fs))
					for k := range c.fs {
						fs[k] = append([]int(nil), c.fs[k]...)
					}
					<-start
					var got []int
					pan, _ := guarded(func() { got = cmds[c.cmd](qs[w], fs) })
					if pan || fmt.Sprint(got) != c.want {
						mu.Lock()
						bad[j] = true
						mu.Unlock()
					}
				}(w)
			}
			close(start)
			wg.Wait()
		}
	}
	for i := range recs {
		if bad[i] {
			fmt.Println("differs " + recs[i].line)
		}
	}
	fmt.Println("concstage-done")
	os.Exit(0)
	return nil
}

func init() { props["concstage"] = runConcStage }

func newOut(dir string) *out {
	wdOnce.Do(func() { go watchdog() }) // started before any goroutine counting
	must(os.MkdirAll(dir, 0o755))
	o := &out{dir: dir, stats: map[string]int{}, distinct: map[string]struct{}{}}
	open := func(name string) *bufio.Writer {
		f, err := os.Create(filepath.Join(dir, name))
		must(err)
		o.files = append(o.files, f)
		return bufio.NewWriterSize(f, 1<<20)
	}
	o.cases = open("cases.txt")
	o.impl = open("impl.txt")
	o.monitor = open("monitor.txt")
	return o
}

func must(err error) {
	if err != nil {
		fmt.Fprintln(os.Stderr, "harness error:", err)
		os.Exit(3)
	}
}

// field helpers
func fHex(b []byte) string {
	if len(b) == 0 {
		return "-"
	}
	return "x" + hex.EncodeToString(b)
}
func fNums(xs ...int) string {
	if len(xs) == 0 {
		return "-"
	}
	parts := make([]string, len(xs))
	for i, x := range xs {
		parts[i] = strconv.Itoa(x)
	}
	return strings.Join(parts, ",")
}

// emit records one case: the model input (cmd + fields) and the implementation's observables.
// nontrivial says whether the case counts as non-trivial by the property's stated rule.
func (o *out) emit(cmd int, fields []string, obs []int, nontrivial bool) {
	var sb strings.Builder
	sb.WriteString(strconv.Itoa(cmd))
	for _, f := range fields {
		sb.WriteByte(' ')
		sb.WriteString(f)
	}
	line := sb.String()
	if concCmds[cmd] && len(line) < 20000 {
		rec := concRec{cmd, append([]string(nil), fields...), append([]int(nil), obs...)}
		if len(o.conc) < 1500 {
			o.conc = append(o.conc, rec)
		} else if k := int(hash64(line) % uint64(o.n+1)); k < len(o.conc) {
			o.conc[k] = rec // reservoir: every case of the run has the same chance of being in the sample
		}
	}
	o.cases.WriteString(line)
	o.cases.WriteByte('\n')
	for i, x := range obs {
		if i > 0 {
			o.impl.WriteByte(' ')
		}
		o.impl.WriteString(strconv.Itoa(x))
	}
	o.impl.WriteByte('\n')
	o.n++
	if nontrivial {
		key := line
		if len(key) > 200 {
			key = key[:100] + fmt.Sprint(hash64(line))
		}
		if _, ok := o.distinct[key]; !ok {
			o.distinct[key] = struct{}{}
			o.nontrivial++
		}
	}
	if len(o.samples) < 6 && (o.n%97 == 1 || o.n < 3) {
		s := line + " => " + fmt.Sprint(obs)
		if len(s) > 400 {
			s = s[:400] + "..."
		}
		o.samples = append(o.samples, s)
	}
}

func hash64(s string) uint64 {
	h := uint64(1469598103934665603)
	for i := 0; i < len(s); i++ {
		h ^= uint64(s[i])
		h *= 1099511628211
	}
	return h
}

// activeProp is the property this run decides (env VERIF_PROP, set by bin/check): monitors that
// belong to another property's statement are evaluated only when that property is checked.
var activeProp = os.Getenv("VERIF_PROP")

func (o *out) failFor(prop, kind, detail string) {
	if activeProp == "" || activeProp == prop {
		o.fail(kind, detail)
	}
}

// fail records a monitor / oracle failure: kind is a short class, detail is a replayable description.
func (o *out) fail(kind, detail string) {
	if o.quiet {
		return
	}
	o.nfail++
	fmt.Fprintf(o.monitor, "%s\t%s\n", kind, detail)
}

func (o *out) count(key string)         { o.stats[key]++ }
func (o *out) countN(key string, n int) { o.stats[key] += n }

func (o *out) close(extra map[string]interface{}) {
	o.cases.Flush()
	o.impl.Flush()
	o.monitor.Flush()
	for _, f := range o.files {
		f.Close()
	}
	keys := make([]string, 0, len(o.stats))
	for k := range o.stats {
		keys = append(keys, k)
	}
	sort.Strings(keys)
	st := map[string]interface{}{
		"cases":               o.n,
		"distinct_nontrivial": o.nontrivial,
		"monitor_failures":    o.nfail,
		"distribution":        o.stats,
		"samples":             o.samples,
	}
	for k, v := range extra {
		st[k] = v
	}
	b, _ := json.MarshalIndent(st, "", " ")
	must(os.WriteFile(filepath.Join(o.dir, "stats.json"), b, 0o644))
}

func main() {
	if len(os.Args) < 5 {
		fmt.Fprintln(os.Stderr, "usage: stunverif <property> <tier> <seed> <outdir> [args]")
		os.Exit(2)
	}
	prop, tier := os.Args[1], os.Args[2]
	seed, err := strconv.ParseUint(os.Args[3], 10, 64)
	must(err)
	o := newOut(os.Args[4])
	f, ok := props[prop]
	if !ok {
		fmt.Fprintln(os.Stderr, "unknown property", prop)
		os.Exit(2)
	}
	extra := f(o, tier == "thorough", newRng(seed), os.Args[5:])
	o.concurrentStage()
	o.close(extra)
}

var props = map[string]func(o *out, thorough bool, r *rng, args []string) map[string]interface{}{}

// cmds maps a command number to the function that runs the implementation on the parsed fields
// of a case line and returns its observables.  Generators build fields and go through run(), so
// every generated case is replayable from its line alone.
var cmds = map[int]func(o *out, f [][]int) []int{}

func bytesOf(f []int) []byte {
	b := make([]byte, len(f))
	for i, x := range f {
		b[i] = byte(x)
	}
	return b
}
func intsOf(b []byte) []int {
	f := make([]int, len(b))
	for i, x := range b {
		f[i] = int(x)
	}
	return f
}

func parseField(s string) []int {
	if s == "-" || s == "" {
		return nil
	}
	if s[0] == 'x' {
		b, err := hex.DecodeString(s[1:])
		must(err)
		return intsOf(b)
	}
	parts := strings.Split(s, ",")
	f := make([]int, len(parts))
	for i, p := range parts {
		v, err := strconv.Atoi(p)
		must(err)
		f[i] = v
	}
	return f
}

func parseCase(line string) (int, [][]int, []string) {
	parts := strings.Fields(line)
	cmd, err := strconv.Atoi(parts[0])
	must(err)
	var fs [][]int
	for _, p := range parts[1:] {
		fs = append(fs, parseField(p))
	}
	return cmd, fs, parts[1:]
}

// run executes one case through the registered command and records it.
func (o *out) run(cmd int, fields []string, nontrivial bool) []int {
	fs := make([][]int, len(fields))
	for i, f := range fields {
		fs[i] = parseField(f)
	}
	// watchdog: a case that does not come back within 20 s (an endless loop in the library) is reported with
	// its case line, the outputs are flushed, and the process ends: nothing after it can run
	var sb strings.Builder
	sb.WriteString(strconv.Itoa(cmd))
	for _, f := range fields {
		sb.WriteByte(' ')
		sb.WriteString(f)
	}
	wdMu.Lock()
	wdCase, wdStart, wdOut = sb.String(), time.Now(), o
	wdMu.Unlock()
	wdOnce.Do(func() { go watchdog() })
	obs := cmds[cmd](o, fs)
	wdMu.Lock()
	wdCase = ""
	wdMu.Unlock()
	o.emit(cmd, fields, obs, nontrivial)
	return obs
}

var (
	wdMu    sync.Mutex
	wdCase  string
	wdStart time.Time
	wdOut   *out
	wdOnce  sync.Once
)

func watchdog() {
	for {
		time.Sleep(time.Second)
		wdMu.Lock()
		c, st, o := wdCase, wdStart, wdOut
		wdMu.Unlock()
		if c != "" && time.Since(st) > 20*time.Second {
			o.fail("case-does-not-return", c)
			o.close(map[string]interface{}{"aborted": "a case did not return within 20 s"})
			os.Exit(0)
		}
	}
}

// replay re-executes literal case lines (one per line in the file given as first extra arg).
func runReplay(o *out, _ bool, _ *rng, args []string) map[string]interface{} {
	data, err := os.ReadFile(args[0])
	must(err)
	for _, line := range strings.Split(string(data), "\n") {
		line = strings.TrimSpace(line)
		if line == "" {
			continue
		}
		cmd, fs, raw := parseCase(line)
		f, ok := cmds[cmd]
		if !ok {
			must(fmt.Errorf("unknown command %d", cmd))
		}
		o.emit(cmd, raw, f(o, fs), true)
	}
	return nil
}

func init() { props["replay"] = runReplay }
