(* Hand-written glue around the extracted model (trusted: parsing and printing only).
   stdin : one case per line   "<cmd> <field> <field> ..."
           field = "-" (empty) | "x<hex bytes>" | "<dec>,<dec>,..."   (negative numbers are not used;
           Z-valued data is offset by the harness)
   stdout: one line per case: the model's result list, decimals separated by spaces. *)
open Stun_model

let rec pos_of_int (i : int) : positive =
  if i = 1 then XH
  else if i land 1 = 0 then XO (pos_of_int (i lsr 1))
  else XI (pos_of_int (i lsr 1))

let n_of_int (i : int) : n = if i = 0 then N0 else Npos (pos_of_int i)

let rec int_of_pos (p : positive) : int =
  match p with XH -> 1 | XO q -> 2 * int_of_pos q | XI q -> 2 * int_of_pos q + 1

let int_of_n (x : n) : int = match x with N0 -> 0 | Npos p -> int_of_pos p

(* bytes are shared: one preallocated value per byte *)
let byte_tab : n array = Array.init 256 n_of_int

let hexval c =
  match c with
  | '0' .. '9' -> Char.code c - 48
  | 'a' .. 'f' -> Char.code c - 87
  | 'A' .. 'F' -> Char.code c - 55
  | _ -> failwith "bad hex"

let parse_field (s : string) : n list =
  if s = "-" then []
  else if s.[0] = 'x' then begin
    let len = (String.length s - 1) / 2 in
    let acc = ref [] in
    for i = len - 1 downto 0 do
      let b = (hexval s.[1 + 2 * i] lsl 4) lor hexval s.[2 + 2 * i] in
      acc := byte_tab.(b) :: !acc
    done;
    !acc
  end else
    List.map (fun t -> n_of_int (int_of_string t)) (String.split_on_char ',' s)

let () =
  let buf = Buffer.create 65536 in
  (try
     while true do
       let line = input_line stdin in
       if line <> "" then begin
         match String.split_on_char ' ' line with
         | [] -> ()
         | cmd :: fields ->
           let fields = List.filter (fun f -> f <> "") fields in
           let args = List.map parse_field fields in
           let out = run (n_of_int (int_of_string cmd)) args in
           Buffer.clear buf;
           List.iteri (fun i x ->
               if i > 0 then Buffer.add_char buf ' ';
               Buffer.add_string buf (string_of_int (int_of_n x))) out;
           Buffer.add_char buf '\n';
           print_string (Buffer.contents buf)
       end
     done
   with End_of_file -> ());
  flush stdout
