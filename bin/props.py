"""Per-property configuration of bin/check."""

TRUSTED_BASE = [
    "Coq 8.16.1 kernel (coqc, full .vo build; vm_compute used for finite sweeps and case evaluation; native_compute not used)",
    "axioms: none declared; Print Assumptions of every property theorem is re-run on each check and must say 'Closed under the global context'",
    "extraction: Require Extraction + ExtrOcamlBasic only (Extract Inductive bool/option/unit/list/prod/sumbool/sumor, Extract Inlined Constant andb/orb); N, Z, positive, nat stay extracted inductives; OCaml 4.13.1; hand-written ocaml/driver.ml (parsing/printing)",
    "hand-written Impl-model tied to the code by differential correspondence (Go harness vs extracted model vs in-Coq vm_compute sample); a code change the generators never reach is not detected",
    "Go 1.23.5 toolchain and runtime, the Go harness (generators, observers, canonicalisation) and bin/check (python diff)",
]

CMD_DOC = {
    101: "decode through an entry point (0: m.Decode in a buffer of given spare capacity; 1: Decode(data,m)/Write/UnmarshalBinary/GobDecode/CloneTo onto a previous buffer; 2: ReadFrom): status, fields, attribute views with offsets, IsMessage",
    201: "library Decode projected on the RFC parse (accept flag, method, class, length, tid, (type,value) list) vs the Coq Spec parser rfc_parse",
    202: "Get / Contains / ForEach (callback failing at its k-th call) on the decoded message",
    1901: "MessageType.Value on one (method, class)",
    1902: "MessageType.ReadValue on one value",
    1903: "MessageType.Value table slice: 256 methods x 4 classes",
    1904: "MessageType.ReadValue table slice: 1024 wire values",
}

DECODE_RULE = ("streams: (i) EXHAUSTIVE length structures (every sequence of attribute length fields with padded total <= bound, "
               "x declared length and buffer length each in [size-5,size+5] and 0xFFFF, x over-claiming last attribute 1..3 bytes / 0xFFFC..0xFFFF, "
               "x header truncations 0..20), (ii) structured-valid messages with known/random/0x8020 types and random non-zero padding, "
               "(iii) mutated RFC 5769 vectors and valid messages (bit flips, length edits, truncation, extension, splices), (iv) random bytes with the cookie forced, "
               "(v) messages at the 65535-byte limit (one maximal attribute, 16383 empty attributes, many mid-sized); ")

PROPS = {
    "C01": {
        "level": "proof",
        "pinned": [101],
        "tagsets": [["verif"], ["verif", "debug"]],
        "coq_sample": 150,
        "coq_sample_maxlen": 1500,
        "rule": DECODE_RULE + "each input is decoded in an exact-capacity buffer and in buffers with +1..+64 / +4096 spare bytes filled with 00/ff/random, and (every 3rd and all large inputs) through the five copying entry points and ReadFrom onto a previous buffer of assorted capacity and length; release and debug tags. non-trivial = every case (each is a distinct (input, capacity, entry) triple); distinct by literal case line",
        "explanation": "theorems: totality of the Impl-model (no Panic/OutOfFuel), view geometry (chain), capacity independence; monitors (tests, not proofs): recovered panics, TotalAlloc delta <= 64*len+8KiB on a sample, caller-buffer poisoning after the copying entry points, agreement of the five copying entry points, pointer offsets of every exposed view (unsafe.SliceData) against the model's a_off",
        "assumptions": ["Go slice/append semantics as modelled in Base/Slice.v (growcap transcribes runtime.growslice of Go 1.23; proofs use only growcap >= needed)",
                        "encoding/binary.BigEndian as rd16/rd32"],
    },
    "C02": {
        "level": "proof",
        "pinned": [201, 202],
        "coq_sample": 150,
        "coq_sample_maxlen": 1500,
        "rule": DECODE_RULE + "each input goes through the library's Decode and through the extracted Spec parser rfc_parse (structurally independent of the Go loop); accepted messages additionally through Get/Contains/ForEach with a callback failing at visit 0..4, incl. 1500 messages with repeated attribute types. non-trivial = every case; distinct by literal case line",
        "explanation": "theorems: decode accepts iff the RFC grammar tlv_seq (iff rfc_parse), every field equals the RFC parse, unique parse, Get=first, Contains=membership, ForEach for every callback; the correspondence compares the library directly with the Spec (oracle B), C01 compares it with the Impl-model",
        "assumptions": ["same as C01"],
    },
    "C19": {
        "level": "proof",
        "pinned": [1903, 1904],
        "coq_sample": 120,
        "coq_sample_maxlen": 20000,
        "rule": "complete domain: all 4096x4 (method,class) pairs through Value() in 16 table slices and all 65536 wire values through ReadValue() in 64 slices (each slice = one case), plus random out-of-domain (method>=4096 or class>=4) samples; a case is non-trivial if it is a table slice or out of domain; distinct by its literal input",
        "explanation": "finite domain: theorems by exhaustive kernel evaluation lifted with forallb_forall; correspondence exhaustive over the whole domain",
        "assumptions": ["Method is a uint16 and MessageClass a byte, as declared in message.go"],
    },
}
