"""Per-property configuration of bin/check."""

TRUSTED_BASE = [
    "Coq 8.16.1 kernel (coqc, full .vo build; vm_compute used for finite sweeps and case evaluation; native_compute not used)",
    "axioms: none declared; Print Assumptions of every property theorem is re-run on each check and must say 'Closed under the global context'",
    "extraction: Require Extraction + ExtrOcamlBasic only (Extract Inductive bool/option/unit/list/prod/sumbool/sumor, Extract Inlined Constant andb/orb); N, Z, positive, nat stay extracted inductives; OCaml 4.13.1; hand-written ocaml/driver.ml (parsing/printing)",
    "hand-written Impl-model tied to the code by differential correspondence (Go harness vs extracted model vs in-Coq vm_compute sample); a code change the generators never reach is not detected",
    "Go 1.23.5 toolchain and runtime, the Go harness (generators, observers, canonicalisation) and bin/check (python diff)",
]

CMD_DOC = {
    1901: "MessageType.Value on one (method, class)",
    1902: "MessageType.ReadValue on one value",
    1903: "MessageType.Value table slice: 256 methods x 4 classes",
    1904: "MessageType.ReadValue table slice: 1024 wire values",
}

PROPS = {
    "C19": {
        "level": "proof",
        "pinned": [1903, 1904],
        "coq_sample": 120,
        "coq_sample_maxlen": 20000,
        "rule": "complete domain: all 4096x4 (method,class) pairs through Value() in 16 table slices and all 65536 wire values through ReadValue() in 64 slices (each slice = one case), plus random out-of-domain (method>=4096 or class>=4) samples; a case is non-trivial if it is a table slice or out of domain; distinct by its literal input",
        "explanation": "finite domain: theorems by exhaustive kernel evaluation lifted with forallb_forall; correspondence exhaustive over the whole domain",
        "assumptions": ["Method is a uint16 and MessageClass a byte, as declared in message.go"],
    },
}
