"""Per-property configuration of bin/check."""

TRUSTED_BASE = [
    "Coq 8.16.1 kernel (coqc, full .vo build; vm_compute used for finite sweeps and case evaluation; native_compute not used)",
    "axioms: none declared; Print Assumptions of every property theorem is re-run on each check and must say 'Closed under the global context'",
    "extraction: Require Extraction + ExtrOcamlBasic only (Extract Inductive bool/option/unit/list/prod/sumbool/sumor, Extract Inlined Constant andb/orb); N, Z, positive, nat stay extracted inductives; OCaml 4.13.1; hand-written ocaml/driver.ml (parsing/printing)",
    "hand-written Impl-model tied to the code by differential correspondence (Go harness vs extracted model vs in-Coq vm_compute sample); a code change the generators never reach is not detected",
    "Go 1.23.5 toolchain and runtime, the Go harness (generators, observers, canonicalisation) and bin/check (python diff)",
]

CMD_DOC = {
    101: "decode through an entry point (0: m.Decode in a buffer of given spare capacity; 1: Decode(data,m)/Write/UnmarshalBinary/GobDecode/CloneTo onto a previous buffer; 2: ReadFrom): status, fields, attribute views with offsets, IsMessage",
    201: "library Decode projected on the RFC parse (accept flag, method, class, length, tid, (type,value) list) vs the Coq Spec parser rfc_parse",
    202: "Get / Contains / ForEach (callback failing at its k-th call) on the decoded message",
    301: "history of building operations (start state, then Build/WriteHeader/Encode/Add/SetType/tid setter/typed, integrity, fingerprint setters/WriteAttributes/Reset/Decode): status, refusal reason, len(Raw) and a digest of the whole projected state after every step; full state at the end",
    601: "round trip: Build(type, tid, typed setter), decode the raw bytes into a fresh message, read the attribute back with the typed getter",
    602: "value bytes written by the library's setter vs the Spec's RFC section-15 encoder",
    603: "value read by the library's getter vs the Spec's RFC section-15 decoder (input produced by a third, independent Go encoder)",
    701: "typed getter / checker on a decoded message in a buffer with given spare capacity: result and message state afterwards",
    1801: "pooled HMAC history (acquire(key)/write/sum/reset/put on a recycled object): every Sum result",
    1901: "MessageType.Value on one (method, class)",
    1902: "MessageType.ReadValue on one value",
    1903: "MessageType.Value table slice: 256 methods x 4 classes",
    1904: "MessageType.ReadValue table slice: 1024 wire values",
}

DECODE_RULE = ("streams: (i) EXHAUSTIVE length structures (every sequence of attribute length fields with padded total <= bound, "
               "x declared length and buffer length each in [size-5,size+5] and 0xFFFF, x over-claiming last attribute 1..3 bytes / 0xFFFC..0xFFFF, "
               "x header truncations 0..20), (ii) structured-valid messages with known/random/0x8020 types and random non-zero padding, "
               "(iii) mutated RFC 5769 vectors and valid messages (bit flips, length edits, truncation, extension, splices), (iv) random bytes with the cookie forced, "
               "(v) messages at the 65535-byte limit (one maximal attribute, 16383 empty attributes, many mid-sized); ")

PROPS = {
    "C01": {
        "level": "proof",
        "pinned": [101],
        "tagsets": [["verif"], ["verif", "debug"]],
        "coq_sample": 150,
        "coq_sample_maxlen": 1500,
        "rule": DECODE_RULE + "each input is decoded in an exact-capacity buffer and in buffers with +1..+64 / +4096 spare bytes filled with 00/ff/random, and (every 3rd and all large inputs) through the five copying entry points and ReadFrom onto a previous buffer of assorted capacity and length; release and debug tags. non-trivial = every case (each is a distinct (input, capacity, entry) triple); distinct by literal case line",
        "explanation": "theorems: totality of the Impl-model (no Panic/OutOfFuel), view geometry (chain), capacity independence; monitors (tests, not proofs): recovered panics, TotalAlloc delta <= 64*len+8KiB on a sample, caller-buffer poisoning after the copying entry points, agreement of the five copying entry points, pointer offsets of every exposed view (unsafe.SliceData) against the model's a_off",
        "assumptions": ["Go slice/append semantics as modelled in Base/Slice.v (growcap transcribes runtime.growslice of Go 1.23; proofs use only growcap >= needed)",
                        "encoding/binary.BigEndian as rd16/rd32"],
    },
    "C02": {
        "level": "proof",
        "pinned": [201, 202],
        "coq_sample": 150,
        "coq_sample_maxlen": 1500,
        "rule": DECODE_RULE + "each input goes through the library's Decode and through the extracted Spec parser rfc_parse (structurally independent of the Go loop); accepted messages additionally through Get/Contains/ForEach with a callback failing at visit 0..4, incl. 1500 messages with repeated attribute types. non-trivial = every case; distinct by literal case line",
        "explanation": "theorems: decode accepts iff the RFC grammar tlv_seq (iff rfc_parse), every field equals the RFC parse, unique parse, Get=first, Contains=membership, ForEach for every callback; the correspondence compares the library directly with the Spec (oracle B), C01 compares it with the Impl-model",
        "assumptions": ["same as C01"],
    },
    "C03": {
        "level": "proof",
        "pinned": [],
        "coq_sample": 60,
        "coq_sample_maxlen": 2500,
        "rule": "random histories (1..15 operations) of building operations over {Build(0..5 setters), WriteHeader, Encode, Add(any type, value length 0..3000 incl. every residue mod 4), SetType(method 0..0xFFF, 4 classes), transaction-ID setter, every typed setter, MESSAGE-INTEGRITY (key 0..200 bytes), FINGERPRINT} from 5 kinds of start (new(Message), New(), decoded message, decoded message with trailing bytes, poisoned re-used buffer), plus EXHAUSTIVELY all histories of <= 3 operations over a 14-operation alphabet (value lengths 0..5) from 3 start states; after every step the whole projected state is compared with the model (digest) and the implementation's state is checked by the Go oracle wellFormed (cookie, header length, multiple of 4, zero padding, struct = TLV walk, re-decode equality, Equal). non-trivial = every history; distinct by literal case line",
        "explanation": "theorems: Build from ANY previous state is canonical (C03_build_canonical), each building setter preserves canonical and is refined by the Impl-model, canonical messages decode to themselves, decode-then-encode is canonical; three refutations with vm_compute witnesses (0x8020 alias, Equal nil-vs-empty on the pinned tree, decoder tolerances surviving in Raw)",
        "assumptions": ["slice model as in C01", "MI uses the model's SHA-1/HMAC (validated against Go by C18/C04)", "attribute views are snapshots (value semantics): sound for the listed operations because every attribute is rewritten in place at its own offset (DESIGN §4 C03)"],
    },
    "C06": {
        "level": "proof",
        "pinned": [601, 602, 603],
        "coq_sample": 40,
        "coq_sample_maxlen": 2500,
        "rule": "ALL ports 0..65535 (Spec encoder vs library bytes; every 16th also through Build/Decode/getter), IPv4 / IPv6 / IPv4-mapped / zero-prefixed addresses, random 96-bit transaction IDs, every AddToAs type used by pion/turn (XOR-PEER/RELAYED) and the four mapped-address attributes, text lengths 0..limit+1 for USERNAME/REALM/NONCE/SOFTWARE, all codes 300..699 with reasons up to 763 bytes, UNKNOWN-ATTRIBUTES lists of 0..64 types; library-written bytes vs the Coq Spec encoder (602), Spec/third-encoder values read by the library vs the Coq Spec decoder (603). non-trivial = every case; distinct by literal case line",
        "explanation": "theorems: value-level round trips (reader(writer(v)) = v) and equality of the Impl-model's bytes with the independent RFC section-15 Spec",
        "assumptions": ["slice model as C01; xor.XorBytes as element-wise xor over the shorter length"],
    },
    "C07": {
        "level": "proof",
        "pinned": [701],
        "tagsets": [["verif"], ["verif", "debug"]],
        "coq_sample": 80,
        "coq_sample_maxlen": 1500,
        "rule": "every getter/checker x every attribute type it serves x EVERY value length 0..40 (random content, plausible family bytes) x position first/middle/last x capacity exact / +1..+64 (00/ff/random) and the 1..4-byte tails a short value could over-read; twins differing only in spare bytes, padding content and neighbouring values must agree INCLUDING error text (implementation vs itself); message state digest before/after; signed/fingerprinted real messages (valid and bit-flipped) with trailing attributes; release and debug tags. non-trivial = every case; distinct by literal case line",
        "explanation": "theorems: every reader is total (never Panic) and local (depends only on the value's own bytes and the transaction ID); checks leave the message as they found it; the pinned XOR reader is refuted with witnesses",
        "assumptions": ["slice model as C01"],
    },
    "C08": {
        "level": "proof",
        "pinned": [],
        "coq_sample": 60,
        "coq_sample_maxlen": 2500,
        "rule": "chains of 2..8 uses (Build with random setters, Decode of random valid/mutated messages, Encode, Add, typed setters, Reset, WriteAttributes, WriteHeader) on buffers pre-filled with a poison pattern (0xFF / random) of assorted capacity and length, sizes in all orders; every chain through the model (stale bytes modelled) and, in the implementation, against a FRESH TWIN with the same Type/TransactionID for the last use (metamorphic); caller buffers overwritten with 0xA5 after Add/Build/Decode; CloneTo/MarshalBinary/GobEncode results re-read after mutating the source. non-trivial = every chain; distinct by literal case line",
        "explanation": "theorems: Build / Decode(data,m) / Add give results independent of ANY previous state (capacity, stale bytes, attributes, length); copy semantics and aliasing are runtime monitors, not proved",
        "assumptions": ["slice model as in C01"],
    },
    "C09": {
        "level": "proof",
        "pinned": [301],
        "tagsets": [["verif"], ["verif", "debug"]],
        "coq_sample": 60,
        "coq_sample_maxlen": 2500,
        "rule": "every text setter x EVERY length 0..limit+300; ERROR-CODE reason lengths 0..1063; ALL codes 0..999 through the default-reason setter and the explicit setter; IP lengths 0..20 x 6 XOR and 6 mapped attribute types; each after a random preceding Build; plus Build histories with 1..7 random setters (incl. MESSAGE-INTEGRITY after FINGERPRINT) followed by single setters; refusal reason and full state compared with the model after every step, before/after snapshot around every refusing setter; release and debug tags. non-trivial = every case; distinct by literal case line",
        "explanation": "theorems: each setter refuses iff (and for the reason) the property names; Add never refuses; Build returns the first refusing setter's error",
        "assumptions": ["error values are projected to the four reasons the property names (overflow, bad IP, no default reason, FINGERPRINT before integrity) through IsAttrSizeOverflow / errors.Is"],
    },
    "C18": {
        "level": "proof",
        "pinned": [1801],
        "tagsets_thorough": [["verif"], ["verif", "race"]],
        "coq_sample": 25,
        "coq_sample_maxlen": 1800,
        "rule": "histories acquire(key)·(write|sum|reset)*·sum·[reset]·put repeated 1..4 times on the recycled object, SHA-1 and SHA-256, keys 0..300 bytes on both sides of the 64-byte block, messages 0..1200 bytes in random chunks with block-boundary sizes; every Sum compared with the Coq model and with Go's crypto/hmac; plus 16 goroutines x 300 (thorough 3000, under -race) concurrent pooled histories against crypto/hmac. non-trivial = every history; distinct by literal case line",
        "explanation": "theorem parametric in the hash: from ANY previous state of the pooled object, every Sum = RFC 2104; instantiated with the Gallina SHA-1 / SHA-256 (validated against crypto/sha1, crypto/sha256 by this correspondence)",
        "assumptions": ["hash objects modelled as 'bytes written since reset' (Write appends, Sum does not disturb, Reset clears, Marshal/Unmarshal = snapshot/restore)", "sync.Pool hands an object to one goroutine at a time (its contract; exercised under -race in the thorough tier)"],
        "trusted_extra": ["/repo hook verif_hooks.go (build tag verif): re-exports internal/hmac Acquire/Put/New/Equal, add-only"],
    },
    "C19": {
        "level": "proof",
        "pinned": [1903, 1904],
        "coq_sample": 120,
        "coq_sample_maxlen": 20000,
        "rule": "complete domain: all 4096x4 (method,class) pairs through Value() in 16 table slices and all 65536 wire values through ReadValue() in 64 slices (each slice = one case), plus random out-of-domain (method>=4096 or class>=4) samples; a case is non-trivial if it is a table slice or out of domain; distinct by its literal input",
        "explanation": "finite domain: theorems by exhaustive kernel evaluation lifted with forallb_forall; correspondence exhaustive over the whole domain",
        "assumptions": ["Method is a uint16 and MessageClass a byte, as declared in message.go"],
    },
}
