import json,glob,os,subprocess,sys
props={json.loads(l)['id']:json.loads(l) for l in open('/verif/properties.jsonl')}
TMPL='''You are helping to evaluate a verification effort for the Go library pion/stun by seeding realistic defects.

Your workspace is the git worktree /tmp/mut/@TAG@ (a checkout of pion/stun). Work ONLY inside /tmp/mut/@TAG@ and /tmp/mut/@TAG@-out. Do NOT read or list /verif, /repo, /root or any other directory outside your workspace; nothing there is meant for you. Do NOT use `git stash` (the stash is shared between worktrees of other agents): to go back to a clean tree use `git diff > /tmp/mut/@TAG@-out/tmp.diff; git checkout -- .` and `git apply` to restore.

Environment for every shell command: export GOFLAGS=-mod=mod GOPROXY=off GOSUMDB=off GOTOOLCHAIN=local   (no network). The test suite is: go test -vet=off -count=1 -timeout 25m ./...   (run it under `timeout 600`; a change that makes it hang is not acceptable - discard it at once).

The semantic property under test:

@PROP@
Task: produce THREE different, realistic changes to the non-test Go source (each the kind of thing a maintainer could plausibly write: an optimisation, a refactor, a 'robustness' tweak, interoperability with another vendor or an older RFC, a changed boundary, an ordering change, a fast path) such that each change
  1. compiles (go build ./... and the test build),
  2. keeps the existing test suite passing, unedited,
  3. breaks the property above, but only for specific inputs / states / operation sequences / schedules / configurations - NOT for every input (a change that breaks the common path is useless: it must need something specific to manifest),
  4. comes with a demonstration: a Go test file demo_test.go (in the package directory it needs; plain `go test`, may use -race if the property is about concurrency) that PASSES on the unmodified tree and FAILS with your change, showing the property violated on the real code.

Changes of earlier rounds for this property (do NOT repeat these or near variants of them; look for different code paths, entry points, boundaries and mechanisms):
@PREV@

Thirteen earlier rounds (about 400 changes across all properties) have been tried; the checks under evaluation caught all of them in the end. The checks compare the library with an independent executable model on generated inputs and operation histories, so a plain logic slip on ordinary inputs is caught at once. They also: feed every numeric, string and character literal of the library's source back into their generators (as types, values, cookies - pairwise -, counts n-1/n/n+1, lengths, hosts, codes, durations); run the library without any special build tag, with the repository's debug tag, and under the race detector; run a small program as a 32-bit binary and as js/wasm; compare the set of compiled source files across platforms and tags; use fresh processes (first use), reused / oversized / caller-overwritten buffers, inputs that alias the destination, struct fields edited by the caller between calls, quoted / escaped strings, framing prefixes and trailers around messages, calls from inside callbacks, stalled peers, chatty peers, short writes, hour-long timers, deadlines thousands of years away, real TCP connections, failing dials, tables with 150000 entries, calls released at the same instant from a barrier, delegating agents that inject events at chosen moments. What slipped through at first was always something the generators or scenarios had not thought of. So be adversarial about the SCENARIO, not only the code: which combination would a test author be least likely to have generated - and which does NOT betray itself by a new literal, a new file or a build constraint? Build your change so that it needs exactly that.

Deliverables, for k = 1, 2, 3, in /tmp/mut/@TAG@-out/<k>/ :
  patch.diff     - `git diff` taken at the worktree root with only your source change (no test files)
  demo_test.go   - the demonstration test (state its package directory in meta.json)
  meta.json      - {"property":"@PID@","summary":"<what was changed, 1-2 sentences>","trigger":"<what is needed to see the violation>","demo_dir":"<package dir relative to the worktree root, e.g. . or internal/hmac>","demo_run":"go test -vet=off -count=1 -run <TestName> .","suite_passes":true}
Between changes restore the tree (git checkout -- . ; remove your demo file). Before writing each deliverable, verify all four points yourself (demo passes clean, fails with patch; suite passes with patch; patch applies with `git apply` on a clean tree). Write each deliverable as soon as it is verified (do not wait for the others). Leave the worktree clean at the end. Reply with a 3-line summary only.
'''
suffix=sys.argv[1]
for pid in sys.argv[2:]:
    p=props[pid]
    blk="  id: %s\n  title: %s\n  statement: %s\n  quantifier: %s\n  anchors: %s\n"%(pid,p['title'],p['statement'],p['quantifier'],json.dumps(p['anchors']))
    prev=[]
    for m in sorted(glob.glob('/verif/seeded/%s*/m*/meta.json'%pid)):
        prev.append('- '+json.load(open(m))['summary'][:200])
    tag=pid+suffix
    t=TMPL.replace('@PROP@',blk).replace('@PREV@',"\n".join(prev)).replace('@TAG@',tag).replace('@PID@',pid)
    open('/tmp/mutprompt/%s.txt'%tag,'w').write(t)
    subprocess.run(['git','-C','/repo','worktree','add','--detach','/tmp/mut/'+tag],capture_output=True)
    os.makedirs('/tmp/mut/%s-out'%tag,exist_ok=True)
    print(tag,len(prev),len(t))
